"""C09 (bounded tier) -- Queries and navigations return exactly the matching instances in model order.

Code under test (real code of /repo): MetaModel.select_many / select_one / select_any (MetaClass.select_*),
where_eq, order_by, reverse_order_by, dict and callable filters, navigate_one / navigate_any / navigate_many
(NavChain), navigate_subtype.

Oracle: bounded/_c09_model.Reference -- a plain relational model of the same state (instances in creation order,
ordered link lists per association, referential attributes read through the links).  It never calls xtuml's
query or navigation functions.  Expected results:

  selection   fold the operators over the live instances of the class in creation order: an equality filter
              (where_eq / dict) keeps the instances whose named attributes all equal the given values, a callable
              keeps those it accepts, an ordering sorts stably by the named attributes (descending when reversed:
              equal elements keep their order, as Python's sorted(reverse=True) does); select_one / select_any =
              first element or None
  navigation  start sequence -> for every step the concatenation of the per-instance partner lists (through the
              association class where the schema has no direct link) -> duplicates removed keeping first
              occurrences; this must also equal, as a set, the image of the start set under the composition of
              the link relations; filters/orderings given to the final call apply to that sequence; the
              single-result forms give its first element or None; a start sequence may hold instances of several
              classes when each of them has the first step (query 'cls' None): the partner list of an instance is
              then the one of its own class
  subtype    the one subtype instance related across the association number (None when there is none; when a
              state holds several, any of them is accepted)

Clauses: select-many-contents, select-many-order, select-one-first-or-none, select-any-first-or-none,
nav-many-contents, nav-many-encounter-order, nav-many-duplicate-free, nav-single-first-or-none, nav-subtype,
query-raised, state-construction-raised.
"""
import itertools

import vlib.fresh_ply  # noqa: F401
import xtuml
from vlib.bounded import item

from bounded import _c09_model as M
from bounded._c09_model import Reference, Invalid, SCHEMAS


# ------------------------------------------------------------------ query operators (descriptor -> real / reference)

def _pred(desc):
    """Named predicates for callable filters: returns f(get) where get(attribute) reads one attribute."""
    name = desc[1]
    if name == 'true':
        return lambda get: True
    if name == 'false':
        return lambda get: False
    if name == 'num_gt':
        return lambda get: get('Num') > desc[2]
    if name == 'name_ne':
        return lambda get: get('Name') != desc[2]
    if name == 'is_none':
        return lambda get: get(desc[2]) is None
    if name == 'not_none':
        return lambda get: get(desc[2]) is not None
    raise ValueError(desc)


def real_op(desc):
    kind = desc[0]
    if kind == 'where':
        return xtuml.where_eq(**desc[1])
    if kind == 'dict':
        return dict(desc[1])
    if kind == 'lam':
        p = _pred(desc)
        return lambda sel: p(lambda a: getattr(sel, a))
    if kind == 'order':
        return xtuml.order_by(*desc[1])
    if kind == 'rorder':
        return xtuml.reverse_order_by(*desc[1])
    raise ValueError(desc)


def stable_sort(seq, key, descending):
    """Insertion sort: an element goes behind every element that does not have to come after it, so equal elements
    keep their original order in both directions."""
    out = []
    for x in seq:
        kx = key(x)
        pos = len(out)
        for j, y in enumerate(out):
            ky = key(y)
            if (ky < kx) if descending else (kx < ky):
                pos = j
                break
        out.insert(pos, x)
    return out


def ref_apply(ref, seq, desc):
    kind = desc[0]
    if kind in ('where', 'dict'):
        return [i for i in seq if all(ref.value(i, a) == v for a, v in desc[1].items())]
    if kind == 'lam':
        p = _pred(desc)
        return [i for i in seq if p(lambda a, i=i: ref.value(i, a))]
    if kind in ('order', 'rorder'):
        return stable_sort(seq, lambda i: [ref.value(i, a) for a in desc[1]], kind == 'rorder')
    raise ValueError(desc)


def ref_fold(ref, seq, ops):
    for d in ops:
        seq = ref_apply(ref, seq, d)
    return seq


def alphabet(ref, cname, rng):
    """A handful of concrete operators of every kind for one class in one state."""
    attrs = [a[0] for a in ref.classes[cname]['attrs']]
    refattrs = [a for a in attrs if (cname, a) in ref.referential]
    plain = [a for a in attrs if a not in refattrs]
    live = ref.instances(cname)

    def some_value(a):
        present = [ref.value(i, a) for i in live]
        r = rng.random()
        if present and r < 0.75:
            return rng.choice(present)
        if a in refattrs and r < 0.9:
            return None
        return {'Name': 'zz', 'Tag': 'zz', 'Flag': True, 'Val': 9.5}.get(a, 99)

    ops = []
    if plain:
        for _ in range(2):
            a = rng.choice(plain)
            ops.append(['where', {a: some_value(a)}])
    for a in refattrs[:2]:
        ops.append(['where', {a: some_value(a)}])
    if len(attrs) >= 2:
        a1, a2 = rng.sample(attrs, 2)
        if live and rng.random() < 0.7:
            i = rng.choice(live)
            ops.append(['where', {a1: ref.value(i, a1), a2: ref.value(i, a2)}])
        else:
            ops.append(['where', {a1: some_value(a1), a2: some_value(a2)}])
    a = rng.choice(attrs)
    ops.append(['dict', {a: some_value(a)}])
    lams = [['lam', 'true'], ['lam', 'false']]
    if 'Num' in plain:
        lams += [['lam', 'num_gt', 0], ['lam', 'num_gt', 1]]
    if 'Name' in plain:
        lams += [['lam', 'name_ne', rng.choice(('a', 'b'))]]
    for a in refattrs:
        lams += [['lam', 'is_none', a], ['lam', 'not_none', a]]
    ops += rng.sample(lams, 2)
    orderable = [a for a in plain]
    if orderable:
        a = rng.choice(orderable)
        ops.append(['order', [a]])
        ops.append(['rorder', [rng.choice(orderable)]])
        if len(orderable) >= 2:
            ops.append(['order', rng.sample(orderable, 2)])
            ops.append(['rorder', rng.sample(orderable, 2)])
    return ops


# ------------------------------------------------------------------ a state on both sides

class World(object):
    def __init__(self, state):
        self.state = state
        self.ref = Reference(state)          # may raise Invalid
        self.m, self.inst = M.build(state)
        self.label = dict((id(x), i) for i, x in enumerate(self.inst))

    def labels(self, xs):
        return [self.label.get(id(x), repr(x)) for x in xs]

    def label1(self, x):
        return None if x is None else self.label.get(id(x), repr(x))


def make_world(state):
    """Returns (world, failures)."""
    try:
        return World(state), []
    except Invalid:
        raise
    except Exception as e:   # noqa: a valid history / valid SQL text must be accepted
        return None, [dict(clause='state-construction-raised', observed='%s: %s' % (type(e).__name__, e), required='the state is built')]


# ------------------------------------------------------------------ selection

def eval_select(w, q):
    """q = {'cls': class, 'ops': [descriptor, ...], 'via': 0 metamodel / 1 metaclass / 2 other letter case of the class name}"""
    out = []
    ref = w.ref
    want = ref_fold(ref, ref.instances(q['cls']), q['ops'])
    ops = [real_op(d) for d in q['ops']]
    via = q.get('via', 0)
    kind = q['cls'].lower() if via == 2 else q['cls']
    try:
        if via == 1:
            mc = w.m.find_metaclass(q['cls'])
            many, one = mc.select_many(*ops), mc.select_one(*[real_op(d) for d in q['ops']])
            any_ = one
        else:
            many = w.m.select_many(kind, *ops)
            one = w.m.select_one(kind, *[real_op(d) for d in q['ops']])
            any_ = w.m.select_any(kind, *[real_op(d) for d in q['ops']])
        got = w.labels(many)
    except Exception as e:   # noqa
        return [dict(clause='query-raised', observed='%s: %s' % (type(e).__name__, e), required=want)]
    if got != want:
        clause = 'select-many-order' if sorted(map(repr, got)) == sorted(map(repr, want)) else 'select-many-contents'
        out.append(dict(clause=clause, observed=got, required=want))
    first = want[0] if want else None
    if w.label1(one) != first:
        out.append(dict(clause='select-one-first-or-none', observed=w.label1(one), required=first))
    if w.label1(any_) != first:
        out.append(dict(clause='select-any-first-or-none', observed=w.label1(any_), required=first))
    return out


def select_queries(w, rng, full_classes):
    """All operator sequences of length <= 3 (classes in full_classes) resp. <= 2 over the class's alphabet."""
    for k, c in enumerate(w.ref.schema['classes']):
        cname = c['name']
        alpha = alphabet(w.ref, cname, rng)
        yield dict(cls=cname, ops=[], via=k % 3)
        maxlen = 3 if cname in full_classes else 2
        n = 0
        for ln in range(1, maxlen + 1):
            for seq in itertools.product(alpha, repeat=ln):
                n += 1
                yield dict(cls=cname, ops=list(seq), via=(0, 0, 0, 1, 2)[n % 5])


# ------------------------------------------------------------------ navigation

_PATHS = {}


def paths(schema_name, start, length):
    key = (schema_name, start, length)
    if key not in _PATHS:
        steps = M.schema_steps(schema_name)
        if length == 0:
            _PATHS[key] = [[]]
        else:
            out = []
            for p in paths(schema_name, start, length - 1):
                cur = p[-1][0] if p else start
                for st in steps[cur]:
                    out.append(p + [list(st)])
            _PATHS[key] = out
    return _PATHS[key]


def _start(w, desc):
    """desc: ['none'] | ['inst', i] | [form, [i, ...]] ; returns (real handle, reference start list)"""
    form = desc[0]
    if form == 'none':
        return None, []
    if form == 'inst':
        return w.inst[desc[1]], [desc[1]]
    idx = list(desc[1])
    objs = [w.inst[i] for i in idx]
    if form == 'queryset':
        return xtuml.QuerySet(objs), idx
    if form == 'select':
        # the query set of all live instances of the class, from the real selection (checked by the selection items)
        return w.m.select_many(desc[2]), idx
    if form == 'list':
        return objs, idx
    if form == 'tuple':
        return tuple(objs), idx
    if form == 'gen':
        return (x for x in objs), idx
    if form == 'iter':
        return iter(objs), idx
    raise ValueError(desc)


def _hop_of(ref, cls, kind, rel, phrase):
    """instance -> ordered partner list for one step; cls None = a handle holding instances of several classes: the
    per-instance result of an instance is the partner list of the step taken from its own class."""
    if cls is not None:
        return ref.step_relation(cls, kind, rel, phrase)
    hops = {}

    def hop(x):
        c = ref.inst[x]['cls']
        if c not in hops:
            hops[c] = ref.step_relation(c, kind, rel, phrase)
        if hops[c] is None:
            raise Invalid()
        return hops[c](x)
    return hop


def ref_navigate(ref, start_cls, start, path):
    """Ordered evaluation: concatenate the per-instance results step by step, then drop repeated elements.
    start_cls None: the start holds instances of several classes (the first step is taken per instance from its own class)."""
    cur, cls = list(start), start_cls
    for kind, rel, phrase in [p[:3] for p in path]:
        hop = _hop_of(ref, cls, kind, rel, phrase)
        if hop is None:
            raise Invalid()
        nxt = []
        for x in cur:
            nxt.extend(hop(x))
        cur, cls = nxt, kind
    out = []
    for x in cur:
        if x not in out:
            out.append(x)
    return out


def ref_compose(ref, start_cls, start, path):
    """Set evaluation: image of the start set under the composition of the link relations."""
    cls = start_cls
    alive = [i for i, r in enumerate(ref.inst) if r['alive']]
    relation = set((x, x) for x in set(start))
    for kind, rel, phrase in [p[:3] for p in path]:
        if cls is None:
            # the link relation of the step = union of the link relations of the classes found in the start set
            pairs = set()
            for c in sorted(set(ref.inst[x]['cls'] for x in start)):
                hop = ref.step_relation(c, kind, rel, phrase)
                if hop is None:
                    raise Invalid()
                pairs |= set((y, z) for y in alive if ref.inst[y]['cls'] == c for z in hop(y))
        else:
            hop = ref.step_relation(cls, kind, rel, phrase)
            pairs = set((y, z) for y in alive if ref.inst[y]['cls'] == cls for z in hop(y))
        relation = set((x, z) for (x, y) in relation for (y2, z) in pairs if y == y2)
        cls = kind
    return set(z for (_, z) in relation)


def eval_nav(w, q):
    """q = {'cls': start class, 'start': start descriptor, 'path': [[kind, rel, phrase, syntax], ...], 'fn': 'many'|'any'|'one', 'ops': [...]}"""
    ref = w.ref
    handle, start = _start(w, q['start'])
    if any(not (0 <= i < len(ref.inst)) or not ref.inst[i]['alive'] for i in start):
        raise Invalid()
    if q['cls'] is None:
        # a handle over several classes: needs a first step, and every class in the handle must offer it
        if not q['path'] or any(ref.step_relation(ref.inst[i]['cls'], *q['path'][0][:3]) is None for i in start):
            raise Invalid()
    elif any(ref.inst[i]['cls'] != q['cls'] for i in start):
        raise Invalid()
    seq = ref_navigate(ref, q['cls'], start, q['path'])
    as_set = ref_compose(ref, q['cls'], start, q['path'])
    assert set(seq) == as_set, 'the two formulations of the oracle disagree'
    end_cls = q['path'][-1][0] if q['path'] else q['cls']
    want = ref_fold(ref, seq, q.get('ops', []))
    fn = {'many': xtuml.navigate_many, 'any': xtuml.navigate_any, 'one': xtuml.navigate_one}[q['fn']]
    try:
        chain = fn(handle)
        for step in q['path']:
            kind, rel, phrase = step[:3]
            syntax = step[3] if len(step) > 3 else 0
            if syntax == 0:
                chain = chain.nav(kind, rel, phrase)
            elif syntax == 1:
                chain = chain.nav(kind, 'R%d' % rel, phrase)
            elif syntax == 2:
                chain = getattr(chain, kind)[rel, phrase] if phrase else getattr(chain, kind)[rel]
            else:
                chain = getattr(chain, kind)['R%d' % rel, phrase]
        res = chain(*[real_op(d) for d in q.get('ops', [])])
        if q['fn'] == 'many':
            got = w.labels(res)
        else:
            got = w.label1(res)
    except Exception as e:   # noqa
        return [dict(clause='query-raised', observed='%s: %s' % (type(e).__name__, e), required=want)]
    out = []
    if q['fn'] == 'many':
        if len(set(map(repr, got))) != len(got):
            out.append(dict(clause='nav-many-duplicate-free', observed=got, required=want))
        elif got != want:
            same = sorted(map(repr, got)) == sorted(map(repr, want))
            out.append(dict(clause='nav-many-encounter-order' if same else 'nav-many-contents', observed=got, required=want))
    else:
        first = want[0] if want else None
        if got != first:
            out.append(dict(clause='nav-single-first-or-none', observed=got, required=first))
    return out


def eval_subtype(w, q):
    """q = {'inst': index or None, 'rel': number, 'relform': 0 int / 1 string}"""
    ref = w.ref
    i = q['inst']
    rel = q['rel'] if q.get('relform', 0) == 0 else 'R%d' % q['rel']
    subs = []
    if i is not None:
        if not (0 <= i < len(ref.inst)) or not ref.inst[i]['alive']:
            raise Invalid()
        for ai, a in enumerate(ref.assocs):
            if a['rel'] == q['rel'] and a['tgt'] == ref.inst[i]['cls'] and a['src'] != a['tgt']:
                subs += ref.src_of[ai].get(i, [])
    try:
        got = w.label1(xtuml.navigate_subtype(None if i is None else w.inst[i], rel))
    except Exception as e:   # noqa
        return [dict(clause='query-raised', observed='%s: %s' % (type(e).__name__, e), required=subs)]
    if (not subs and got is not None) or (subs and got not in subs):
        return [dict(clause='nav-subtype', observed=got, required=(subs[0] if len(subs) == 1 else (None if not subs else {'one of': subs})))]
    return []


def nav_queries(w, rng, n3, n4):
    ref = w.ref
    schema = w.state['schema']
    filt_cache = {}

    def final_ops(cls):
        if cls not in filt_cache:
            filt_cache[cls] = alphabet(ref, cls, rng)
        return filt_cache[cls]

    for c in ref.schema['classes']:
        cname = c['name']
        live = ref.instances(cname)
        starts = [['none']] + [['inst', i] for i in live]
        sets = [['select', live, cname], ['queryset', live[::-1]], ['list', live], ['gen', live], ['iter', live[::-1]],
                ['tuple', live[:2]], ['list', (live + live)[:len(live) + 1] if live else []], ['list', []], ['queryset', []]]
        plist = []
        for ln in (1, 2):
            plist += paths(schema, cname, ln)
        for ln, n in ((3, n3), (4, n4)):
            ps = paths(schema, cname, ln)
            plist += ps if len(ps) <= n else rng.sample(ps, n)
        for p in plist:
            p = [st + [rng.randint(0, 3)] for st in p]
            short = len(p) <= 2
            for st in starts:
                for fn in ('many', 'any', 'one'):
                    if short or rng.random() < 0.4:
                        yield dict(cls=cname, start=st, path=p, fn=fn, ops=[])
            chosen = sets if short else rng.sample(sets, 3)
            for st in chosen:
                for fn in ('many', 'any'):
                    if short or rng.random() < 0.6:
                        yield dict(cls=cname, start=st, path=p, fn=fn, ops=[])
            # with filters / orderings on the final call
            end = p[-1][0]
            alpha = final_ops(end)
            for _ in range(3 if short else 1):
                ops = rng.sample(alpha, rng.randint(1, 2))
                st = rng.choice(starts + sets)
                fn = rng.choice(('many', 'any') if st[0] not in ('none', 'inst') else ('many', 'any', 'one'))
                yield dict(cls=cname, start=st, path=p, fn=fn, ops=ops)


_MIXED = {}


def _linked(schema, cname, step):
    """Does the schema give class cname the step (kind, rel, phrase) as a direct link, or through an association class
    (a class that refers to both cname and kind across rel)?"""
    kind, rel, phrase = step
    refs_c, refs_k = set(), set()
    for ai, a in enumerate(schema['assocs']):
        if a['rel'] != rel:
            continue
        if (a['tgt'], a['src'], a['tgt_phrase']) == (cname, kind, phrase) or (a['src'], a['tgt'], a['src_phrase']) == (cname, kind, phrase):
            return True
        if a['tgt'] == cname and a['tgt_phrase'] == phrase:
            refs_c.add((a['src'], ai))
        if a['tgt'] == kind and a['src_phrase'] == phrase:
            refs_k.add((a['src'], ai))
    return any(m1 == m2 and a1 != a2 for m1, a1 in refs_c for m2, a2 in refs_k)


def mixed_groups(schema_name):
    """[(first step (kind, rel, phrase), [classes that offer it])] for the steps that two or more classes offer through a
    link of their own or through an association class (subtypes towards their common supertype; an association class and
    a participant towards the other participant)."""
    if schema_name not in _MIXED:
        steps = M.schema_steps(schema_name)
        schema = SCHEMAS[schema_name]
        by = {}
        for c in schema['classes']:
            for st in steps[c['name']]:
                if _linked(schema, c['name'], tuple(st)):
                    by.setdefault(tuple(st), []).append(c['name'])
        _MIXED[schema_name] = [(list(st), cs) for st, cs in by.items() if len(cs) >= 2]
    return _MIXED[schema_name]


def mixed_nav_queries(w, rng, nlong):
    """Navigations whose starting handle holds instances of more than one class, all of which offer the first step."""
    ref = w.ref
    schema = w.state['schema']
    forms = ('queryset', 'list', 'gen', 'tuple', 'iter')
    k = 0
    for first, classes in mixed_groups(schema):
        per = [ref.instances(c) for c in classes]
        if sum(1 for p in per if p) < 2:
            continue
        pool = sorted(i for p in per for i in p)
        grouped = [i for p in per for i in p]
        rgrouped = [i for p in reversed(per) for i in p]
        handles = [pool, pool[::-1], grouped, rgrouped, (grouped + grouped)[:len(grouped) + 2]]
        pairs = [[x, y] for x in pool for y in pool if ref.inst[x]['cls'] != ref.inst[y]['cls']]
        handles += pairs if len(pairs) <= 6 else rng.sample(pairs, 6)
        plist = []
        for ln in (0, 1):
            plist += paths(schema, first[0], ln)
        for ln in (2, 3):
            ps = paths(schema, first[0], ln)
            plist += ps if len(ps) <= nlong else rng.sample(ps, nlong)
        alpha = alphabet(ref, first[0], rng)
        for rest in plist:
            p = [st + [rng.randint(0, 3)] for st in [first] + rest]
            short = len(p) <= 2
            for h in (handles if short else rng.sample(handles, min(3, len(handles)))):
                k += 1
                form = forms[k % len(forms)]
                for fn in ('many', 'any'):
                    yield dict(cls=None, start=[form, h], path=p, fn=fn, ops=[])
            if len(p) == 1:
                # with filters / orderings on the final call
                for _ in range(3):
                    k += 1
                    yield dict(cls=None, start=[forms[k % len(forms)], rng.choice(handles)], path=p,
                               fn=rng.choice(('many', 'any')), ops=rng.sample(alpha, rng.randint(1, 2)))


def subtype_queries(w):
    ref = w.ref
    k = 0
    rels = sorted(set(a['rel'] for a in ref.assocs))
    yield dict(inst=None, rel=rels[0], relform=0)
    for a in ref.assocs:
        pass
    supers = {}
    for a in ref.assocs:
        if a['src'] != a['tgt'] and not a['src_phrase'] and not a['tgt_phrase']:
            supers.setdefault((a['tgt'], a['rel']), 0)
            supers[(a['tgt'], a['rel'])] += 1
    for (cname, rel), n in sorted(supers.items()):
        for i in ref.instances(cname):
            k += 1
            yield dict(inst=i, rel=rel, relform=k % 2)


# ------------------------------------------------------------------ states

def states(ctx, what):
    """(state, exhaustive-part?) in a deterministic order; random parts come from a generator seeded by the run seed so
    that all shards see the same list."""
    import random
    rng = random.Random('C09/%s/%d' % (what, ctx.seed))
    quick = ctx.quick

    def exhaustive_part():
        for d in range(0, (4 if quick else 5) + 1):
            for st in M.mini_histories(d):
                yield st

    def sampled_part():
        yield dict(schema='full', mode='api', ops=[])
        yield dict(schema='full', mode='load', rows=[['A', [1, 'a', 0, True, 9]]])
        n_api = 100 if quick else 1500
        n_load = 40 if quick else 600
        for k in range(n_api):
            yield M.random_history(rng, 'full', rng.choice((6, 12, 20, 30, 45, 60)))
            if k % 5 == 0:
                yield M.random_history(rng, 'mini', rng.choice((5, 9, 14)))
            if k * n_load // n_api != (k + 1) * n_load // n_api:
                yield M.random_rows(rng, 'full')

    # interleaved (4 small exhaustive states, then 1 sampled state), so that a run cut short by its budget has seen both kinds
    a, b = exhaustive_part(), sampled_part()
    while a is not None or b is not None:
        if a is not None:
            for _ in range(4):
                st = next(a, None)
                if st is None:
                    a = None
                    break
                yield st
        if b is not None:
            st = next(b, None)
            if st is None:
                b = None
            else:
                yield st


def _query_instances(q):
    if 'start' in q:
        st = q['start']
        return [st[1]] if st[0] == 'inst' else (list(st[1]) if st[0] != 'none' else [])
    if 'inst' in q:
        return [] if q['inst'] is None else [q['inst']]
    return []


def _renumber_query(q, j):
    f = lambda i: i - 1 if i > j else i
    q = dict(q)
    if 'start' in q:
        st = list(q['start'])
        if st[0] == 'inst':
            st[1] = f(st[1])
        elif st[0] != 'none':
            st[1] = [f(i) for i in st[1]]
        q['start'] = st
    if q.get('inst') is not None and 'inst' in q:
        q['inst'] = f(q['inst'])
    return q


def _drop_instance(state, q, j):
    """The state without its j-th instance (and without the operations that mention it); None when the query needs it."""
    if j in _query_instances(q):
        return None
    f = lambda i: i - 1 if i > j else i
    if state['mode'] == 'load':
        return dict(state, rows=state['rows'][:j] + state['rows'][j + 1:]), _renumber_query(q, j)
    ops, n = [], -1
    for op in state['ops']:
        if op[0] == 'new':
            n += 1
            if n != j:
                ops.append(op)
        elif op[0] == 'delete':
            if op[1] != j:
                ops.append(['delete', f(op[1])])
        else:
            if j not in (op[2], op[3]):
                ops.append([op[0], op[1], f(op[2]), f(op[3])] + list(op[4:]))
    return dict(state, ops=ops), _renumber_query(q, j)


def shrink(state, evaluator, q, clause):
    """A smaller (state, query) pair that still fails the same clause: shortest failing prefix of the history, then
    instances (with everything that mentions them) and single relate/unrelate/delete operations dropped greedily."""
    def fails(st, qq):
        try:
            w, f = make_world(st)
            if w is None:
                return False
            return any(x['clause'] == clause for x in evaluator(w, qq))
        except Exception:
            return False
    best, bq = state, q
    if state['mode'] == 'api':
        ops = state['ops']
        for n in range(len(ops)):
            cand = dict(state, ops=ops[:n])
            if fails(cand, q):
                best = cand
                break
    count = len(best['rows']) if best['mode'] == 'load' else sum(1 for o in best['ops'] if o[0] == 'new')
    for j in range(count - 1, -1, -1):
        cand = _drop_instance(best, bq, j)
        if cand is not None and fails(*cand):
            best, bq = cand
    if best['mode'] == 'api':
        i = len(best['ops']) - 1
        while i >= 0:
            if best['ops'][i][0] != 'new':
                cand = dict(best, ops=best['ops'][:i] + best['ops'][i + 1:])
                if fails(cand, bq):
                    best = cand
            i -= 1
    return best, bq


def _run(ctx, what, evaluator, queries_of):
    import random
    done = 0
    count = {True: 0, False: 0}
    for k, state in enumerate(states(ctx, what)):
        # the states over the full schema cost ~100 times more than the ones over the mini schema and sit at every 5th
        # position of the list: both kinds are dealt round-robin separately so that no shard gets all the expensive ones
        heavy = state['schema'] != 'mini'
        count[heavy] += 1
        if (count[heavy] - 1) % ctx.nshards != ctx.shard:
            continue
        if ctx.expired():
            ctx.exhausted = False
            ctx.note('shard %d: budget used up after %d states (state list position %d)' % (ctx.shard, done, k))
            return
        done += 1
        rng = random.Random('C09/%s/%d/%d' % (what, ctx.seed, k))
        try:
            w, fails = make_world(state)
        except Invalid:
            raise
        for f in fails:
            ctx.check(False, clause=f['clause'], input=dict(state=state, query=None), observed=f['observed'], required=f['required'])
        if w is None:
            continue
        nlive = sum(1 for r in w.ref.inst if r['alive'])
        for q in queries_of(w, rng):
            ctx.case(key=None, nontrivial=nlive >= 2)
            for f in evaluator(w, q):
                st, sq = state, q
                if getattr(ctx, '_per_clause', {}).get(f['clause'], 0) < getattr(ctx, 'MAX_PER_CLAUSE', 3):
                    st, sq = shrink(state, evaluator, q, f['clause'])
                    if st is not state:
                        w2, _ = make_world(st)
                        f = ([g for g in evaluator(w2, sq) if g['clause'] == f['clause']] or [f])[0]
                ctx.check(False, clause=f['clause'], input=dict(state=st, query=sq), observed=f['observed'], required=f['required'])
    if ctx.shard == 0:
        ctx.note('all states of the list were evaluated (%d in shard 0)' % done)
    ctx.exhausted = False   # the random part of the state list is a sample


_STATES_BOUND = ('states: every valid API history (new/relate in both call forms/unrelate/delete) of depth <= 4 (quick) / <= 5 (thorough) over the '
                 'mini schema (A, B, 1:M), plus random histories of 6..60 operations over the full schema (1:M, 1:1, reflexive 1:1 and 1:M with '
                 'phrases, association class, reflexive through an association class, supertype with two subtypes; <= 4 instances per class) '
                 'and populations loaded from SQL text with repeated identifiers and dangling references (100+40 quick / 1500+600 thorough)')


@item('select', stands_in_for=['xtuml.meta.apply_query_operators', 'xtuml.meta.WhereEqual.__call__', 'xtuml.meta.OrderBy.__call__',
                               'xtuml.meta.MetaClass.select_many', 'xtuml.meta.MetaClass.select_one', 'xtuml.meta.MetaModel.select_many',
                               'xtuml.meta.MetaModel.select_one'],
      bound=_STATES_BOUND + '; queries: per state and class an alphabet of about 12 operators (where_eq on 1-2 attributes including referential '
            'ones, dict filter, callables, order_by / reverse_order_by on 1-2 attributes with ties), every sequence of <= 2 operators for every '
            'class and of <= 3 operators for two classes (mini schema: one class) per state, through select_many, select_one and select_any; non-trivial = state with >= 2 live instances',
      shards=6, weight=2)
def select(ctx):
    def queries(w, rng):
        names = [c['name'] for c in w.ref.schema['classes']]
        full = rng.sample(names, 1 if len(names) <= 2 else 2)
        return select_queries(w, rng, full)
    _run(ctx, 'select', eval_select, queries)


@item('navigate', stands_in_for=['xtuml.meta.MetaClass.navigate', 'xtuml.meta.MetaClass._find_assoc_links', 'xtuml.meta.NavChain', 'xtuml.meta.NavOneChain',
                                 'xtuml.meta.navigate_one', 'xtuml.meta.navigate_any', 'xtuml.meta.navigate_many', 'xtuml.meta.navigate_subtype'],
      bound=_STATES_BOUND + '; navigations: every chain of 1-2 steps the schema offers (direct links and shortcuts through association classes) and '
            '12+12 (quick) / 30+30 (thorough) sampled chains of 3 and 4 steps per class and state, from None, every instance, the selected query set, '
            'a query set in reverse order, lists (also with a repeated element, also empty), a tuple, a generator and an iterator, with navigate_many/any/one, '
            '.nav() and [..] syntax, number and "R<n>" form; final call without and with 1-2 filters/orderings; navigate_subtype from every supertype instance and None; '
            'handles holding instances of several classes (full schema: the 6 first steps that two classes offer through a link of their own or through an '
            'association class -- both subtypes to the supertype, both participants to the association class, association class + participant to the '
            'other participant): all live instances of those classes in creation / reverse / class-by-class order, with repeated elements, and <= 6 '
            'two-instance handles, as query set, list, tuple, generator, iterator, continued by every chain of 0-1 further steps and 3+3 (quick) / 8+8 '
            '(thorough) sampled chains of 2 and 3 further steps, navigate_many/any, without and with 1-2 filters/orderings',
      shards=10, weight=3)
def navigate(ctx):
    n = 12 if ctx.quick else 30

    def queries(w, rng):
        for q in nav_queries(w, rng, n, n):
            yield q
        for q in subtype_queries(w):
            yield dict(q, subtype=True)
        for q in mixed_nav_queries(w, rng, 3 if ctx.quick else 8):
            yield q

    def evaluator(w, q):
        return eval_subtype(w, q) if q.get('subtype') else eval_nav(w, q)
    _run(ctx, 'navigate', evaluator, queries)


def replay(item_name, input):
    import logging
    logging.disable(logging.CRITICAL)
    w, fails = make_world(input['state'])
    if w is None or input.get('query') is None:
        return fails
    q = input['query']
    if item_name == 'select':
        return eval_select(w, q)
    return eval_subtype(w, q) if q.get('subtype') else eval_nav(w, q)
