"""Helper of bounded/c01.py: models with a *history*.

The property quantifies over every metamodel of the persistable domain -- not only over models that were just built.  A
model that is persisted may have been obtained by loading a text, by an earlier round trip, or by defining an association
over instances that already existed, and may have been edited through the public interface (relate, unrelate, attribute
writes, new, delete) before it is written.  This module describes such histories as pure data:

    origin   how the model first came into being        (ORIGINS)
    edits    a list of operations applied afterwards    (apply_ops on the description, api_apply on the real model)

    ['unrelate', ai, si, ti]          the si-th row of the referring class of association ai no longer refers to row ti
    ['relate',   ai, si, ti]          ... now refers to row ti (it referred to nothing before; the referred row is free
                                      unless the referring end is many)
    ['set',      kind, idx, name, v]  attribute write on a non-referential attribute
    ['new',      kind, values]        a new row at the end of its class (referential positions None)
    ['delete',   kind, idx]           removes a row that takes part in no link

`apply_ops(desc0, edits)` is the description of the model that is persisted; c01 compares the reloaded model with
`expected_view` of *that* description.  Nothing in here looks at how the library stores things.
"""
import copy

from bounded import _schema_gen as G

ORIGINS = ('api', 'loaded', 'reloaded', 'late-association')

FRESH_KEY = {'BOOLEAN': True, 'INTEGER': 12345, 'REAL': 0.5, 'STRING': "new 'key'", 'UNIQUE_ID': 2 ** 64 + 5}
MOVED_KEY = {'BOOLEAN': True, 'INTEGER': -777, 'REAL': -7.75, 'STRING': 'moved -- key', 'UNIQUE_ID': 2 ** 100 + 1}


def plain_value(ty, n):
    ty = ty.upper()
    return {'BOOLEAN': n % 2 == 0, 'INTEGER': 1000 + n, 'REAL': 100.25 + n, 'STRING': 'edited %d' % n,
            'UNIQUE_ID': 2 ** 65 + n}[ty]


# ------------------------------------------------------------------------------------------------ on descriptions

def _nrows(desc, kind):
    return len(G.rows_of(desc, kind))


def _key_attrs(desc, kind):
    """attributes of `kind` that some association uses to identify its rows"""
    s = set()
    for a in desc['assocs']:
        if a['target']['kind'] == kind:
            s.update(a['target']['keys'])
    return s


def apply_op(desc, op):
    """The description after one edit (a new dict).  ValueError when the edit does not apply to this description."""
    d = copy.deepcopy(desc)
    what = op[0]
    if what in ('relate', 'unrelate'):
        _, ai, si, ti = op
        if not 0 <= ai < len(d['assocs']):
            raise ValueError('no such association: %r' % (op,))
        a = d['assocs'][ai]
        if not (0 <= si < _nrows(d, a['source']['kind']) and 0 <= ti < _nrows(d, a['target']['kind'])):
            raise ValueError('no such row: %r' % (op,))
        if what == 'unrelate':
            if [ai, si, ti] not in d['links']:
                raise ValueError('not linked: %r' % (op,))
            d['links'].remove([ai, si, ti])
        else:
            if any(l[0] == ai and l[1] == si for l in d['links']):
                raise ValueError('referring row already refers to a row: %r' % (op,))
            if not a['source']['many'] and any(l[0] == ai and l[2] == ti for l in d['links']):
                raise ValueError('referred row is taken: %r' % (op,))
            d['links'].append([ai, si, ti])
    elif what == 'set':
        _, kind, idx, name, value = op
        names = [n for n, _ in G.class_of(d, kind)['attrs']]
        if name in G.referential_names(d, kind) or name not in names or not 0 <= idx < _nrows(d, kind):
            raise ValueError('not a writable attribute of a row: %r' % (op,))
        G.rows_of(d, kind)[idx]['values'][names.index(name)] = value
    elif what == 'new':
        _, kind, values = op
        c = G.class_of(d, kind)
        refs = G.referential_names(d, kind)
        if len(values) != len(c['attrs']) or any(v is not None for (n, _), v in zip(c['attrs'], values) if n in refs):
            raise ValueError('values do not fit the class: %r' % (op,))
        d['rows'].append(dict(kind=kind, values=list(values)))
    elif what == 'delete':
        _, kind, idx = op
        if not 0 <= idx < _nrows(d, kind):
            raise ValueError('no such row: %r' % (op,))
        for ai, si, ti in d['links']:
            a = d['assocs'][ai]
            if (a['source']['kind'] == kind and si == idx) or (a['target']['kind'] == kind and ti == idx):
                raise ValueError('row is linked: %r' % (op,))
        pos = [p for p, r in enumerate(d['rows']) if r['kind'] == kind][idx]
        del d['rows'][pos]
        for l in d['links']:
            a = d['assocs'][l[0]]
            if a['source']['kind'] == kind and l[1] > idx:
                l[1] -= 1
            if a['target']['kind'] == kind and l[2] > idx:
                l[2] -= 1
    else:
        raise ValueError('unknown edit: %r' % (op,))
    return d


def apply_ops(desc, ops):
    for op in ops:
        desc = apply_op(desc, op)
    return desc


def _nullish(v, ty):
    return v is None or v == G.NULL[ty.upper()]


def in_domain(desc):
    """The population's referential values resolve (quantifier of the property): per association every referring row
    refers to at most one row, a referred row has several referring rows only when the referring end is many, and the
    rows of a referred class carry distinct keys none of which is all-null (an all-null key is what an unlinked
    referring row is written with, so it would be matched on reload)."""
    for ai, a in enumerate(desc['assocs']):
        ls = [l for l in desc['links'] if l[0] == ai]
        if len(set(l[1] for l in ls)) != len(ls):
            return False
        if not a['source']['many'] and len(set(l[2] for l in ls)) != len(ls):
            return False
        tk = a['target']['kind']
        types = G.attr_types(desc, tk)
        seen = []
        for i in range(_nrows(desc, tk)):
            key = [G.resolve_value(desc, tk, i, n) for n in a['target']['keys']]
            if all(_nullish(v, types[n]) for v, n in zip(key, a['target']['keys'])):
                return False
            key = [G.norm_value(v, types[n]) for v, n in zip(key, a['target']['keys'])]
            if key in seen:
                return False
            seen.append(key)
    return True


# ------------------------------------------------------------------------------------------------ edit scripts

class _Editor(object):
    def __init__(self, desc):
        self.d, self.ops, self.n = desc, [], 0

    def do(self, *op):
        op = list(op)
        self.d = apply_op(self.d, op)
        self.ops.append(op)

    def links(self, ai):
        return [(l[1], l[2]) for l in self.d['links'] if l[0] == ai]

    def assoc(self, ai):
        return self.d['assocs'][ai]

    def free_target(self, ai, avoid=()):
        """index of a referred row that the association ai may still take a referring row for, or None"""
        a = self.assoc(ai)
        taken = set(t for _, t in self.links(ai))
        for t in range(_nrows(self.d, a['target']['kind'])):
            if t in avoid:
                continue
            if a['source']['many'] or t not in taken:
                return t
        return None

    def isolate(self, kind, idx):
        """unrelate every link that row idx of kind takes part in"""
        for l in [list(l) for l in self.d['links']]:
            a = self.d['assocs'][l[0]]
            if (a['source']['kind'] == kind and l[1] == idx) or (a['target']['kind'] == kind and l[2] == idx):
                self.do('unrelate', *l)

    def new_row(self, kind, fresh_key=FRESH_KEY):
        c = G.class_of(self.d, kind)
        refs, keys = G.referential_names(self.d, kind), _key_attrs(self.d, kind)
        self.n += 1
        vals = [None if n in refs else (fresh_key[t.upper()] if n in keys else plain_value(t, 50 + self.n)) for n, t in c['attrs']]
        self.do('new', kind, vals)
        return _nrows(self.d, kind) - 1

    def set_plain(self):
        """write every attribute that is neither referential nor a key of an association, on the first and last row"""
        done = False
        for c in self.d['classes']:
            kind = c['kind']
            refs, keys, n = G.referential_names(self.d, kind), _key_attrs(self.d, kind), _nrows(self.d, kind)
            for name, ty in c['attrs']:
                if name in refs or name in keys:
                    continue
                for idx in sorted(set([0, n - 1]) if n else ()):
                    self.n += 1
                    self.do('set', kind, idx, name, plain_value(ty, self.n))
                    done = True
        return done


SCRIPTS = ('relink', 'unlink', 'unlink-all', 'link', 'swap', 'set', 'set-key', 'new-referred', 'new-referring',
           'delete-referring', 'delete-referred', 'mixed')
PER_ASSOC = ('relink', 'unlink', 'link', 'swap', 'set-key', 'new-referred', 'new-referring', 'delete-referring',
             'delete-referred')


def _relink(e, ai):
    ls = e.links(ai)
    if not ls:
        return False
    si, ti = ls[0]
    a = e.assoc(ai)
    nt = _nrows(e.d, a['target']['kind'])
    if nt < 2:
        return False
    tj = e.free_target(ai, avoid=(ti,))
    if tj is None:                                   # every other row is taken: its referring row lets go first
        tj = (ti + 1) % nt
        for s, t in ls:
            if t == tj:
                e.do('unrelate', ai, s, t)
    e.do('unrelate', ai, si, ti)
    e.do('relate', ai, si, tj)
    return True


def _new_referring(e, ai):
    a = e.assoc(ai)
    si = e.new_row(a['source']['kind'])
    t = e.free_target(ai)
    if t is not None:
        e.do('relate', ai, si, t)
    return True


def script(desc, name, ai=0):
    """The edits of the named script on this description, or None when the script does not apply or leaves the domain."""
    e = _Editor(copy.deepcopy(desc))
    ok = False
    if name != 'unlink-all' and name in PER_ASSOC and ai >= len(desc['assocs']):
        return None
    if name == 'relink':
        ok = _relink(e, ai)
    elif name == 'unlink':
        ls = e.links(ai)
        if ls:
            e.do('unrelate', ai, ls[0][0], ls[0][1])
            ok = True
    elif name == 'unlink-all':
        for l in [list(l) for l in e.d['links']]:
            e.do('unrelate', *l)
            ok = True
    elif name == 'link':
        a = e.assoc(ai)
        linked = set(s for s, _ in e.links(ai))
        free = [s for s in range(_nrows(e.d, a['source']['kind'])) if s not in linked]
        t = e.free_target(ai)
        if free and t is not None:
            e.do('relate', ai, free[-1], t)
            ok = True
    elif name == 'swap':
        ls = e.links(ai)
        pair = [(x, y) for x in ls for y in ls if x[0] < y[0] and x[1] != y[1]]
        if pair:
            (s1, t1), (s2, t2) = pair[0]
            e.do('unrelate', ai, s1, t1)
            e.do('unrelate', ai, s2, t2)
            e.do('relate', ai, s1, t2)
            e.do('relate', ai, s2, t1)
            ok = True
    elif name == 'set':
        ok = e.set_plain()
    elif name == 'set-key':                          # the key of a referred row changes while rows refer to it
        a = e.assoc(ai)
        tk = a['target']['kind']
        refs, types = G.referential_names(e.d, tk), G.attr_types(e.d, tk)
        ls = e.links(ai)
        if ls and not any(k in refs for k in a['target']['keys']):
            for k in a['target']['keys']:
                e.do('set', tk, ls[0][1], k, MOVED_KEY[types[k].upper()])
            ok = True
    elif name == 'new-referred':                     # a new referred row takes over a referring row
        a = e.assoc(ai)
        ls = e.links(ai)
        if ls and not G.referential_names(e.d, a['target']['kind']) & set(a['target']['keys']):
            tj = e.new_row(a['target']['kind'])
            e.do('unrelate', ai, ls[0][0], ls[0][1])
            e.do('relate', ai, ls[0][0], tj)
            ok = True
    elif name == 'new-referring':
        ok = _new_referring(e, ai)
    elif name == 'delete-referring':
        a = e.assoc(ai)
        ls = e.links(ai)
        if ls:
            e.isolate(a['source']['kind'], ls[0][0])
            e.do('delete', a['source']['kind'], ls[0][0])
            ok = True
    elif name == 'delete-referred':
        a = e.assoc(ai)
        ls = e.links(ai)
        if ls:
            e.isolate(a['target']['kind'], ls[0][1])
            e.do('delete', a['target']['kind'], ls[0][1])
            ok = True
    elif name == 'mixed':
        ok = _relink(e, 0) if desc['assocs'] else False
        ok = e.set_plain() and ok
        if ok:
            _new_referring(e, len(desc['assocs']) - 1)
            ls = e.links(0)
            if len(ls) > 1:
                e.do('unrelate', 0, ls[0][0], ls[0][1])
    else:
        raise ValueError(name)
    if not ok or not e.ops or not in_domain(e.d):
        return None
    return e.ops


# ------------------------------------------------------------------------------------------------ on the real model

def api_apply(m, desc, ops):
    """Apply the edits to metamodel m (which holds the model described by desc) through the public interface."""
    import xtuml
    pools = dict((c['kind'], list(m.select_many(c['kind']))) for c in desc['classes'])
    for op in ops:
        what = op[0]
        if what in ('relate', 'unrelate'):
            _, ai, si, ti = op
            a = desc['assocs'][ai]
            fn = xtuml.relate if what == 'relate' else xtuml.unrelate
            fn(pools[a['source']['kind']][si], pools[a['target']['kind']][ti], a['rel_id'], a['source']['phrase'])
        elif what == 'set':
            _, kind, idx, name, value = op
            setattr(pools[kind][idx], name, value)
        elif what == 'new':
            _, kind, values = op
            refs = G.referential_names(desc, kind)
            inst = m.new(kind)
            for (n, _), v in zip(G.class_of(desc, kind)['attrs'], values):
                if n not in refs:
                    setattr(inst, n, v)
            pools[kind].append(inst)
        elif what == 'delete':
            _, kind, idx = op
            xtuml.delete(pools[kind].pop(idx))
        else:
            raise ValueError(op)
        desc = apply_op(desc, op)
    return m


def load_independent_text(desc):
    """The described model, loaded from a text written by the independent writer of _schema_gen."""
    import xtuml
    l = xtuml.ModelLoader()
    l.input('\n'.join(G.sql_schema(desc)) + '\n')
    l.input('\n'.join(G.sql_rows(desc)) + '\n')
    return l.build_metamodel()


def late_association_build(desc):
    """The described model where the instances exist before their associations: every attribute (also the ones that
    become referential) is written as a plain value, then each association is defined, related in one batch over the
    values, and formalized."""
    import xtuml
    m = xtuml.MetaModel()
    for c in desc['classes']:
        m.define_class(c['kind'], [(n, t) for n, t in c['attrs']])
    count = {}
    for r in desc['rows']:
        k = r['kind']
        i = count.get(k, 0)
        count[k] = i + 1
        inst = m.new(k)
        for n, _ in G.class_of(desc, k)['attrs']:
            setattr(inst, n, G.resolve_value(desc, k, i, n))
    for i in desc['ids']:
        m.define_unique_identifier(i['kind'], i['name'], *i['attrs'])
    for a in desc['assocs']:
        s, t = a['source'], a['target']
        ass = m.define_association(a['rel_id'], s['kind'], list(s['keys']), s['many'], s['cond'], s['phrase'],
                                   t['kind'], list(t['keys']), t['many'], t['cond'], t['phrase'])
        ass.batch_relate()
        ass.formalize()
    return m
