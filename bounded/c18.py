"""C18 (bounded tier) -- one loader builds independent metamodels.

A history is a sequence of events on ONE loader:  'I' (feed the next of two input texts), 'B' (build a metamodel),
['M', kind, j] (mutate the j-th built metamodel: new / delete instance, attribute write, relate, unrelate,
append / insert / delete attribute, define_unique_identifier).  Every history with exactly 2 I, 3 B and 3 M (each M
after some B) is a maximal history; all shorter histories are its prefixes, and the clauses are evaluated after every
event, so the maximal histories cover all interleavings of <=2 inputs, <=3 builds, <=3 mutations.

Oracle: the two input texts are written (independent SQL writer of _schema_gen) from two model descriptions
desc1 <= desc2; a build after k inputs must look like expected_view(desc_k) (empty for k = 0) -- pure data.  Non-interference
is a relation between observations of the same object: a snapshot (xtuml.serialize text + structural walk through the
public interface) of every metamodel that was *not* the target of the event must be the same before and after it.

Clauses
  build-contains-exactly-accepted-input      view(build) == expected_view(description of the inputs so far)
  build-equals-fresh-loader-build            serialize(build) == serialize(build of a fresh loader fed the same inputs), and
                                             every attribute read has the same Python type and value as in that build
  unchanged-by-mutation-of-another           a mutation of one metamodel changed the snapshot of another
  unchanged-by-later-input / unchanged-by-later-build

Rejected inputs (item histories-with-rejected-input).  "Each contains exactly the input ACCEPTED up to its build": an
input() call that raises accepted nothing.  A fourth event ['X', kind, pos] feeds the loader a text that the file
format does not allow (REJECTED_KINDS: a statement with a missing parenthesis, a character outside the alphabet, a
cardinality other than 1 / 1C / M / MC, a text that ends inside a statement, an unterminated string, a missing keyword);
the text is made of well-formed statements -- a class no description knows with rows of it, and all statements of the
next input the loader has not accepted yet (the last one when both are accepted) -- with the malformed statement at
position pos among them (0 = first statement ... 4 = last).  The call must raise; the expected view and the fresh
loader of every later build are those of the accepted inputs alone, and
  unchanged-by-rejected-input                the rejected call changed the snapshot of an earlier build
"""
import itertools

from vlib.bounded import item

from bounded import _schema_gen as G
from bounded import c01 as C01

MUTATIONS = ('new', 'delete', 'write', 'relate', 'unrelate', 'append_attribute', 'insert_attribute', 'delete_attribute',
             'define_unique_identifier')


# --------------------------------------------------------------------------------------------------- scenarios

def _sub(desc, keep_rows, keep_assocs=True, keep_ids=True, keep_classes=None):
    """Sub-description: the rows with index in keep_rows (global row order), links among them."""
    classes = [c for c in desc['classes'] if keep_classes is None or c['kind'] in keep_classes]
    kinds = set(c['kind'] for c in classes)
    rows = [r for i, r in enumerate(desc['rows']) if i in keep_rows and r['kind'] in kinds]
    # map (kind, index within kind in the full description) -> index within kind in the sub description
    pos, cnt_full, cnt_sub = {}, {}, {}
    for i, r in enumerate(desc['rows']):
        k = r['kind']
        j = cnt_full.get(k, 0)
        cnt_full[k] = j + 1
        if i in keep_rows and k in kinds:
            pos[(k, j)] = cnt_sub.get(k, 0)
            cnt_sub[k] = cnt_sub.get(k, 0) + 1
    assocs = list(desc['assocs']) if keep_assocs else []
    links = []
    if keep_assocs:
        for ai, si, ti in desc['links']:
            a = desc['assocs'][ai]
            s, t = (a['source']['kind'], si), (a['target']['kind'], ti)
            if s in pos and t in pos:
                links.append([ai, pos[s], pos[t]])
    return dict(classes=classes, assocs=assocs, ids=list(desc['ids']) if keep_ids else [], rows=rows, links=links)


def _row_statements(desc):
    return G.sql_rows(desc, style=0)


def scenario(name):
    """-> (text1, desc1, text2, desc2).  desc2 is the whole description; the texts are statements of desc2."""
    if name.startswith('rows-cut'):
        shape, kt, cards, cut = {
            'rows-cut-simple': ('simple', ['UNIQUE_ID'], ('MC', '1'), 4),
            'rows-cut-referred-late': ('simple', ['STRING'], ('M', '1C'), 1),
            'rows-cut-reflexive': ('reflexive', ['INTEGER'], ('1C', '1C'), 2),
            'rows-cut-assoc-class': ('assoc-class', ['UNIQUE_ID'], ('MC', '1'), 7),
            'rows-cut-chain': ('chain', ['REAL'], ('MC', '1'), 5),
            'rows-cut-double-key': ('two-assocs', ['INTEGER', 'STRING'], ('MC', '1C'), 4),
            'rows-cut-two-identifiers': ('two-identifiers', ['UNIQUE_ID', 'UNIQUE_ID', 'UNIQUE_ID', 'UNIQUE_ID'], ('MC', '1'), 5),
            'rows-cut-crossed-key': ('crossed-key', ['INTEGER', 'STRING'], ('MC', '1C'), 4),
        }[name]
        if shape == 'two-identifiers':        # two associations into one class through different identifiers, equal referential names
            full = C01.several_desc(1, 1, kt, 'equal', 0, 0, cards[0], cards[1], 1, 'all', 1)
        elif shape == 'crossed-key':          # composite key whose referential attributes are spelled like the other identifying attribute
            full = C01.layout_desc('simple', kt, [1, 0], [1, 0], [0, 1], 'K', cards[0], cards[1], 1, 'all', 1)
        else:
            full = C01.rel_desc(shape, kt, cards[0], cards[1], 2, 'all', 1)
        rows = _row_statements(full)
        if name == 'rows-cut-referred-late':      # the referring rows come first, the rows they refer to in the second input
            keep = set(i for i, r in enumerate(full['rows']) if r['kind'] == 'S')
        else:
            keep = set(range(cut))
        d1 = _sub(full, keep)
        return ('\n'.join(G.sql_schema(full) + [rows[i] for i in sorted(keep)]), d1,
                '\n'.join(rows[i] for i in range(len(rows)) if i not in keep), full)
    if name == 'schema-late':
        full = C01.rel_desc('simple', ['UNIQUE_ID'], 'MC', '1', 2, 'all', 1)
        rows = _row_statements(full)
        nt = len(G.rows_of(full, 'T'))
        d1 = _sub(full, set(range(nt)), keep_assocs=False, keep_ids=False)
        t1 = [G.sql_class(c) for c in full['classes']] + rows[:nt]
        t2 = [G.sql_assoc(a) for a in full['assocs']] + [G.sql_identifier(i) for i in full['ids']] + rows[nt:]
        return '\n'.join(t1), d1, '\n'.join(t2), full
    if name == 'class-late':
        full = C01.rel_desc('assoc-class', ['STRING'], 'MC', '1', 1, 'all', 1)
        rows = _row_statements(full)
        keep = set(i for i, r in enumerate(full['rows']) if r['kind'] == 'A')
        d1 = _sub(full, keep, keep_assocs=False, keep_ids=False, keep_classes=('A',))
        t1 = [G.sql_class(G.class_of(full, 'A'))] + [rows[i] for i in sorted(keep)]
        t2 = [G.sql_class(c) for c in full['classes'] if c['kind'] != 'A'] + [G.sql_assoc(a) for a in full['assocs']] + \
             [G.sql_identifier(i) for i in full['ids']] + [rows[i] for i in range(len(rows)) if i not in keep]
        # per-class order of desc2 is unchanged (rows of A first, as in the full description)
        return '\n'.join(t1), d1, '\n'.join(t2), full
    if name == 'rows-then-schema':
        full = C01.inferred_desc(['INTEGER', 'STRING', 'UNIQUE_ID'], 2)
        rows = _row_statements(full)
        return '\n'.join(rows), full, '\n'.join(G.sql_class(c) for c in full['classes']), full
    if name in RETYPED:
        return retyped_scenario(*RETYPED[name])
    raise ValueError(name)


# Rows that arrive before the schema of their class: the first input holds only INSERT statements (the file format then
# names positional attributes _0, _1, ... and types every attribute after the literal of the first row: digits INTEGER,
# digits.digits REAL, '...' STRING, "..." UNIQUE_ID), the second input declares the classes -- with other attribute
# names, a BOOLEAN where the rows carry 0 / 1 (the format writes booleans as numbers), a REAL where the rows carry whole
# numbers, more attributes and another attribute order than the named rows mention, and possibly an association and
# identifiers over the re-typed attributes.  A build after the first input sees the inferred classes, a build after the
# second one the declared classes holding the same rows read with the declared types.
#
#   spec: {kind: ([declared name, declared type, literal type or None (= attribute no row mentions)], ...)}, rows in
#   declared types, named: {kind: order in which the INSERT statements name the attributes (positions) or None},
#   assoc: optional (referring kind, referring positions, referred kind, referred positions)

def _literal_view(v, declared, literal):
    """The value a literal written for `declared` has when read as `literal` type (only 0/1 -> BOOLEAN, whole -> REAL)."""
    if v is None or declared == literal:
        return v
    if (declared, literal) in (('BOOLEAN', 'INTEGER'), ('REAL', 'INTEGER')):
        return int(v)
    raise ValueError((declared, literal))


def retyped_scenario(spec, rows, named, assoc):
    classes2 = [dict(kind=k, attrs=[[n, t] for n, t, _ in spec[k]]) for k in sorted(spec)]
    desc2 = dict(classes=classes2, assocs=[], ids=[], rows=[dict(kind=k, values=list(v)) for k, v in rows], links=[])
    if assoc:
        sk, sp, tk, tp = assoc
        desc2['assocs'].append(dict(rel_id='R1', source=dict(kind=sk, keys=[spec[sk][p][0] for p in sp], many=True, cond=True, phrase=''),
                                    target=dict(kind=tk, keys=[spec[tk][p][0] for p in tp], many=False, cond=True, phrase='')))
        desc2['ids'].append(dict(kind=tk, name='I1', attrs=[spec[tk][p][0] for p in tp]))
        # links by the values the rows carry (every referring row of RETYPED matches exactly one referred row)
        si = -1
        for i, (k, v) in enumerate(rows):
            if k != sk:
                continue
            si += 1
            ti = -1
            for k2, v2 in rows:
                if k2 != tk:
                    continue
                ti += 1
                if all(v[a] == v2[b] for a, b in zip(sp, tp)):
                    desc2['links'].append([0, si, ti])
    # first input: only rows; what it describes on its own
    classes1, rows1, text1 = [], [], []
    for k in sorted(spec):
        order = named.get(k)
        mentioned = [p for p in (order if order is not None else range(len(spec[k]))) if spec[k][p][2] is not None]
        names = [spec[k][p][0] for p in mentioned] if order is not None else ['_%d' % i for i in range(len(mentioned))]
        classes1.append(dict(kind=k, attrs=[[n, spec[k][p][2]] for n, p in zip(names, mentioned)]))
    for k, v in rows:
        order = named.get(k)
        mentioned = [p for p in (order if order is not None else range(len(spec[k]))) if spec[k][p][2] is not None]
        lit = [[spec[k][p][0], spec[k][p][2]] for p in mentioned]
        vals = [_literal_view(v[p], spec[k][p][1], spec[k][p][2]) for p in mentioned]
        rows1.append(dict(kind=k, values=vals))
        text1.append(G.sql_insert(k, lit, vals, named=list(range(len(lit))) if order is not None else None, style=0))
    desc1 = dict(classes=classes1, assocs=[], ids=[], rows=rows1, links=[])
    text2 = [G.sql_class(c) for c in classes2] + [G.sql_assoc(a) for a in desc2['assocs']] + [G.sql_identifier(i) for i in desc2['ids']]
    return '\n'.join(text1), desc1, '\n'.join(text2), desc2


RETYPED = {
    'rows-then-retyped-schema': (
        {'K': (['Enabled', 'BOOLEAN', 'INTEGER'], ['Level', 'REAL', 'INTEGER'], ['Name', 'STRING', 'STRING'], ['Count', 'INTEGER', 'INTEGER'],
               ['Off', 'BOOLEAN', 'INTEGER']),
         'L': (['Flow', 'REAL', 'INTEGER'], ['Ratio', 'REAL', 'REAL'], ['Id', 'UNIQUE_ID', 'UNIQUE_ID'])},
        [('K', [True, 20.0, "it's", 3, False]), ('L', [15.0, 0.5, 2 ** 127]), ('K', [False, -7.0, '', -2 ** 70, True]),
         ('K', [True, 0.0, 'x', 0, True]), ('L', [-1.0, -2.25, 1])],
        {}, None),
    'named-rows-then-retyped-schema': (
        {'K': (['Name', 'STRING', 'STRING'], ['Extra', 'INTEGER', None], ['Enabled', 'BOOLEAN', 'INTEGER'], ['Level', 'REAL', 'INTEGER'],
               ['Id', 'UNIQUE_ID', 'UNIQUE_ID'], ['More', 'STRING', None]),
         'L': (['Open', 'BOOLEAN', 'INTEGER'],)},
        [('K', ['a', None, True, 1.0, 5, None]), ('L', [False]), ('K', ["b''c", None, False, 0.0, 2 ** 64, None]), ('L', [True])],
        {'K': [3, 0, 4, 2], 'L': [0]}, None),
    'rows-then-retyped-schema-and-association': (
        {'T': (['Level', 'REAL', 'INTEGER'], ['Lit', 'BOOLEAN', 'INTEGER'], ['Name', 'STRING', 'STRING']),
         'S': (['Sid', 'INTEGER', 'INTEGER'], ['T_Level', 'REAL', 'INTEGER'], ['T_Lit', 'BOOLEAN', 'INTEGER'])},
        [('T', [10.0, True, 't0']), ('T', [10.0, False, 't1']), ('T', [-3.0, True, 't2']),
         ('S', [1, 10.0, False]), ('S', [2, -3.0, True]), ('S', [3, 10.0, False])],
        {'S': [1, 2, 0]}, ('S', [1, 2], 'T', [0, 1])),
}


SCENARIOS = ('rows-cut-simple', 'schema-late', 'rows-cut-reflexive', 'rows-cut-assoc-class', 'class-late', 'rows-cut-chain',
             'rows-cut-referred-late', 'rows-cut-double-key', 'rows-then-schema', 'rows-then-retyped-schema',
             'named-rows-then-retyped-schema', 'rows-then-retyped-schema-and-association', 'rows-cut-two-identifiers',
             'rows-cut-crossed-key')
EMPTY = dict(classes=[], assocs=[], ids=[], rows=[], links=[])


# --------------------------------------------------------------------------------------------------- rejected inputs

GHOST = 'ZGhost'        # a class of no description
REJECTED_KINDS = {
    'missing-parenthesis': 'INSERT INTO ZGhost VALUES (3, \'c\';',
    'illegal-character': 'INSERT INTO ZGhost VALUES (3, \'c\') ?;',
    'illegal-cardinality': 'CREATE ROP REF_ID R99 FROM X ZGhost (Id) TO 1 ZGhost (Id);',
    'ends-inside-statement': 'CREATE TABLE ZOther (Id INTEGER',
    'unterminated-string': "INSERT INTO ZGhost VALUES (3, 'c);",
    'missing-keyword': 'INSERT ZGhost VALUES (3, \'c\');',
}
REJECTED_ORDER = ('missing-parenthesis', 'illegal-character', 'illegal-cardinality', 'ends-inside-statement', 'unterminated-string',
                  'missing-keyword')
REJECTED_POSITIONS = 5


def rejected_text(kind, pos, next_text):
    """Well-formed statements with one malformed statement as the pos-th part."""
    parts = ['CREATE TABLE ZGhost (Id INTEGER, Name STRING);', "INSERT INTO ZGhost VALUES (1, 'a');", next_text,
             "INSERT INTO ZGhost VALUES (2, 'b');"]
    pos = pos % REJECTED_POSITIONS
    parts.insert(pos, REJECTED_KINDS[kind])
    return '\n'.join(parts)


# --------------------------------------------------------------------------------------------------- mutations

def _first_plain_attr(mc, avoid_keys=True):
    for n, t in mc.attributes:
        if n in mc.referential_attributes:
            continue
        if avoid_keys and n in mc.identifying_attributes:
            continue
        return n, t
    return None


def mutate(m, kind, salt):
    """Apply one of the property's listed changes to metamodel m through the public API.  What the change does to m
    itself is not this property's business; errors of the mutation are ignored."""
    import xtuml
    if kind not in MUTATIONS:
        raise ValueError(kind)
    mcs = list(m.metaclasses.values())
    if not mcs:
        return 'no classes'
    mc = mcs[salt % len(mcs)]
    try:
        if kind == 'new':
            m.new(mc.kind)
        elif kind == 'delete':
            for c in mcs[salt % len(mcs):] + mcs[:salt % len(mcs)]:
                inst = m.select_any(c.kind)
                if inst is not None:
                    xtuml.delete(inst)
                    break
        elif kind == 'write':
            for c in mcs[salt % len(mcs):] + mcs[:salt % len(mcs)]:
                inst = m.select_any(c.kind)
                a = _first_plain_attr(c, avoid_keys=False)
                if inst is not None and a:
                    v = {'BOOLEAN': True, 'INTEGER': 4711 + salt, 'REAL': 47.11, 'STRING': 'mutated %d' % salt,
                         'UNIQUE_ID': 2 ** 100 + salt}[a[1].upper()]
                    setattr(inst, a[0], v)
                    break
        elif kind in ('relate', 'unrelate'):
            for ass in m.associations:
                src_kind, tgt_kind = ass.source_link.kind, ass.target_link.kind
                phrase = ass.target_link.phrase
                done = False
                for s in m.select_many(src_kind):
                    linked = list(xtuml.navigate_many(s).nav(tgt_kind, ass.rel_id, phrase)())
                    if kind == 'unrelate' and linked:
                        xtuml.unrelate(s, linked[0], ass.rel_id, phrase)
                        done = True
                        break
                    if kind == 'relate' and not linked:
                        for t in m.select_many(tgt_kind):
                            try:
                                xtuml.relate(s, t, ass.rel_id, phrase)
                                done = True
                                break
                            except xtuml.MetaException:
                                continue
                        if done:
                            break
                if done:
                    break
            else:
                if kind == 'relate' and m.associations:
                    ass = m.associations[0]
                    s, t = m.new(ass.source_link.kind), m.new(ass.target_link.kind)
                    xtuml.relate(s, t, ass.rel_id, ass.target_link.phrase)
        elif kind == 'append_attribute':
            mc.append_attribute('Extra%d' % salt, 'INTEGER')
            for inst in m.select_many(mc.kind):
                setattr(inst, 'Extra%d' % salt, salt)
        elif kind == 'insert_attribute':
            mc.insert_attribute(0, 'First%d' % salt, 'STRING')
            for inst in m.select_many(mc.kind):
                setattr(inst, 'First%d' % salt, 'f')
        elif kind == 'delete_attribute':
            for c in mcs[salt % len(mcs):] + mcs[:salt % len(mcs)]:
                a = _first_plain_attr(c) or _first_plain_attr(c, avoid_keys=False)
                if a:
                    c.delete_attribute(a[0])
                    break
        elif kind == 'define_unique_identifier':
            a = _first_plain_attr(mc, avoid_keys=False) or (mc.attributes[0] if mc.attributes else None)
            if a:
                m.define_unique_identifier(mc.kind, 'IX%d' % salt, a[0])
    except Exception as e:
        return 'mutation raised %s' % type(e).__name__
    return 'ok'


def snapshot(m):
    import xtuml
    try:
        text = xtuml.serialize(m)
    except Exception as e:
        text = 'serialize raised %s' % type(e).__name__
    try:
        view = G.observe(m)
    except Exception as e:
        view = 'walk raised %s' % type(e).__name__
    return (text, view)


def snap_diff(before, after):
    d = {}
    if before[0] != after[0]:
        a, b = before[0], after[0]
        i = next((k for k, (x, y) in enumerate(zip(a, b)) if x != y), min(len(a), len(b)))
        d['serialize'] = dict(before=a[max(0, i - 80):i + 80], after=b[max(0, i - 80):i + 80])
    if before[1] != after[1]:
        if isinstance(before[1], dict) and isinstance(after[1], dict):
            d['walk'] = [[c, o, r] for c, o, r in G.diff_views(before[1], after[1])]
        else:
            d['walk'] = dict(before=before[1] if not isinstance(before[1], dict) else 'ok', after=after[1] if not isinstance(after[1], dict) else 'ok')
    return d


def typed_walk(m):
    """Every attribute read of every instance with the Python type of the value (1 is not True, 20 is not 20.0): used
    only to compare a build with the build of a fresh loader fed the same inputs -- two runs of the same code that
    differ in nothing but the history of the loader."""
    out = {}
    for mc in m.metaclasses.values():
        out[mc.kind] = [[[n, type(getattr(inst, n)).__name__, repr(getattr(inst, n))] for n, _ in mc.attributes]
                        for inst in m.select_many(mc.kind)]
    return out


_FRESH = {}


def fresh_build(name, k, texts):
    """(serialized text, typed walk) of the build of a fresh loader fed the first k inputs."""
    import xtuml
    if (name, k) not in _FRESH:
        l = xtuml.ModelLoader()
        for t in texts[:k]:
            l.input(t)
        m = l.build_metamodel()
        _FRESH[(name, k)] = (xtuml.serialize(m), typed_walk(m))
    return _FRESH[(name, k)]


NOT_REJECTED = 'note:malformed-text-was-accepted'      # not a clause: reported through ctx.note, never as a violation


def run_history(name, events):
    """[(clause, observed, required)]"""
    import xtuml
    t1, d1, t2, d2 = scenario(name)
    texts, descs = [t1, t2], [EMPTY, d1, d2]
    loader = xtuml.ModelLoader()
    fed = 0
    built, snaps = [], []
    out = []
    for ei, ev in enumerate(events):
        target = None
        if ev == 'I':
            if fed < 2:
                loader.input(texts[fed])
                fed += 1
            why = 'unchanged-by-later-input'
        elif ev == 'B':
            try:
                m = loader.build_metamodel()
            except Exception as e:
                out.append(('build-contains-exactly-accepted-input',
                            dict(event=ei, inputs=fed, raised='%s: %s' % (type(e).__name__, str(e)[:200])),
                            'the build succeeds and equals the description of the inputs accepted so far'))
                continue
            required = G.expected_view(descs[fed])
            d = G.diff_views(required, G.observe(m))
            if d:
                out.append(('build-contains-exactly-accepted-input', dict(event=ei, inputs=fed, differences=[list(x) for x in d]),
                            'the build equals the description of the inputs accepted so far'))
            s = xtuml.serialize(m)
            ref, ref_walk = fresh_build(name, fed, texts)
            if s != ref:
                i = next((k for k, (x, y) in enumerate(zip(s, ref)) if x != y), min(len(s), len(ref)))
                out.append(('build-equals-fresh-loader-build', dict(event=ei, inputs=fed, observed=s[max(0, i - 80):i + 80]),
                            ref[max(0, i - 80):i + 80]))
            else:
                walk = typed_walk(m)
                if walk != ref_walk:
                    kinds = [k for k in sorted(set(walk) | set(ref_walk)) if walk.get(k) != ref_walk.get(k)]
                    out.append(('build-equals-fresh-loader-build',
                                dict(event=ei, inputs=fed, typed_values=dict((k, walk.get(k)) for k in kinds)),
                                dict(typed_values=dict((k, ref_walk.get(k)) for k in kinds))))
            why = 'unchanged-by-later-build'
        elif ev[0] == 'X':
            text = rejected_text(ev[1], ev[2], texts[min(fed, 1)])
            try:
                loader.input(text)
            except Exception:
                pass
            else:
                # the text was accepted: what it describes is outside this oracle -- the history ends here
                out.append((NOT_REJECTED, dict(event=ei, event_kind=ev), None))
                break
            why = 'unchanged-by-rejected-input'
        else:
            _, kind, j = ev
            target = j % len(built) if built else None
            if target is not None:
                mutate(built[target], kind, ei)
            why = 'unchanged-by-mutation-of-another'
        for j, mj in enumerate(built):
            now = snapshot(mj)
            if j == target:
                snaps[j] = now
                continue
            d = snap_diff(snaps[j], now)
            if d:
                out.append((why, dict(event=ei, event_kind=ev, metamodel=j, changed=d), 'snapshot of metamodel %d unchanged' % j))
                snaps[j] = now
        if ev == 'B':
            built.append(m)
            snaps.append(snapshot(m))
    return out


# --------------------------------------------------------------------------------------------------- enumeration

def skeletons():
    """All arrangements of I I B B B M M M in which every M comes after some B (maximal histories)."""
    seen = []
    for p in sorted(set(itertools.permutations('IIBBBMMM'))):
        ok, b = True, 0
        for e in p:
            if e == 'B':
                b += 1
            elif e == 'M' and b == 0:
                ok = False
                break
        if ok:
            seen.append(p)
    return seen


def histories(quick):
    sk = skeletons()
    triples = list(itertools.product(range(len(MUTATIONS)), repeat=3))
    n = 0
    for si, s in enumerate(sk):
        chosen = triples[si % 9::9] if quick else triples
        for tr in chosen:
            n += 1
            events, mi, b = [], 0, 0
            for e in s:
                if e == 'M':
                    events.append(['M', MUTATIONS[tr[mi]], (n + mi) % 3])
                    mi += 1
                else:
                    events.append(e)
            yield (SCENARIOS[n % len(SCENARIOS)], events)


@item('histories', stands_in_for=['xtuml.load.ModelLoader.build_metamodel', 'xtuml.load.ModelLoader.populate',
                                  'xtuml.meta.MetaModel.define_class', 'xtuml.meta.MetaModel.define_association',
                                  'xtuml.meta.MetaModel.define_unique_identifier', 'xtuml.meta.MetaClass.append_attribute',
                                  'xtuml.meta.MetaClass.insert_attribute', 'xtuml.meta.MetaClass.delete_attribute'],
      shards=15, weight=1,
      bound='all arrangements of 2 inputs, 3 builds, 3 mutations on one loader (mutation only after a build; all shorter '
            'histories are prefixes, clauses evaluated after every event) x mutation-kind triples over 9 kinds (quick: 81 of '
            'the 729 per arrangement, rotating so that all triples occur; thorough: all 729); mutated metamodel and the 14 '
            'input scenarios rotate (C01 shapes split into two inputs: rows cut -- also over two identifiers of one class '
            'and a composite key with crossed names --, schema late, class late, rows before a schema of the inferred types, '
            'positional / named rows before a schema that re-names and re-types their attributes (0/1 as BOOLEAN, whole '
            'numbers as REAL, more attributes, other order), the same with an association over the re-typed attributes)')
def histories_item(ctx):
    for i, (name, events) in enumerate(histories(ctx.quick)):
        if i % ctx.nshards != ctx.shard:
            continue
        if ctx.expired():
            ctx.exhausted = False
            break
        ctx.case(key=(name, events), nontrivial=True)
        for clause, observed, required in run_history(name, events):
            ctx.check(False, clause=clause, input=dict(scenario=name, events=events), observed=observed, required=required)
    else:
        ctx.exhausted = True


def rejected_skeletons():
    """All arrangements of I I X X B B B M in which the M comes after some B (maximal histories with two rejected inputs)."""
    seen = []
    for p in sorted(set(itertools.permutations('IIXXBBBM'))):
        if p.index('M') > p.index('B'):
            seen.append(p)
    return seen


def rejected_histories(quick):
    variants = [(k, pos) for pos in range(REJECTED_POSITIONS) for k in REJECTED_ORDER]          # 30
    pairs = list(itertools.product(range(len(variants)), repeat=2))                               # 900
    step = 225 if quick else 15
    n = 0
    for si, s in enumerate(rejected_skeletons()):
        for pi, pr in enumerate(pairs[(si * 7) % step::step]):
            n += 1
            events, xi = [], 0
            for e in s:
                if e == 'M':
                    events.append(['M', MUTATIONS[(n + si) % len(MUTATIONS)], n % 3])
                elif e == 'X':
                    k, pos = variants[pr[xi]]
                    events.append(['X', k, pos])
                    xi += 1
                else:
                    events.append(e)
            yield (SCENARIOS[n % len(SCENARIOS)], events)


@item('histories-with-rejected-input',
      stands_in_for=['xtuml.load.ModelLoader.input', 'xtuml.load.ModelLoader.build_metamodel', 'xtuml.load.ModelLoader.populate'],
      shards=6, weight=1,
      bound='all arrangements of 2 accepted inputs, 2 rejected inputs, 3 builds, 1 mutation on one loader (mutation only after a '
            'build; all shorter histories are prefixes, clauses evaluated after every event); a rejected input is a text of '
            'well-formed statements (an unknown class with rows, all statements of the next input not accepted yet) with one '
            'malformed statement -- 6 kinds: missing parenthesis, illegal character, illegal cardinality, text ends inside a '
            'statement, unterminated string, missing keyword -- at one of 5 positions (first .. last statement); pairs of '
            '(kind, position) rotate (quick: 4 of the 900 per arrangement, thorough: 60); mutation kind, mutated metamodel and '
            'the 14 input scenarios rotate')
def rejected_histories_item(ctx):
    for i, (name, events) in enumerate(rejected_histories(ctx.quick)):
        if i % ctx.nshards != ctx.shard:
            continue
        if ctx.expired():
            ctx.exhausted = False
            break
        ctx.case(key=(name, events), nontrivial=True)
        for clause, observed, required in run_history(name, events):
            if clause == NOT_REJECTED:
                ctx.note('%s: input() accepted a malformed text %r; the history was cut there' % (name, observed))
                continue
            ctx.check(False, clause=clause, input=dict(scenario=name, events=events), observed=observed, required=required)
    else:
        ctx.exhausted = True


@item('scenario-sanity', stands_in_for=[], shards=1, weight=0,
      bound='each of the 14 scenarios: fresh loader, build after 0, 1, 2 inputs equals the description (guards the oracle)')
def scenario_sanity(ctx):
    for name in SCENARIOS:
        events = ['B', 'I', 'B', 'I', 'B']
        ctx.case(key=(name, events), nontrivial=True)
        for clause, observed, required in run_history(name, events):
            ctx.check(False, clause=clause, input=dict(scenario=name, events=events), observed=observed, required=required)
    ctx.exhausted = True


def replay(item_name, input):
    return [dict(clause=c, observed=o, required=r) for c, o, r in run_history(input['scenario'], input['events'])
            if c != NOT_REJECTED]
