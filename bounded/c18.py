"""C18 (bounded tier) -- one loader builds independent metamodels.

A history is a sequence of events on ONE loader:  'I' (feed the next of two input texts), 'B' (build a metamodel),
['M', kind, j] (mutate the j-th built metamodel: new / delete instance, attribute write, relate, unrelate,
append / insert / delete attribute, define_unique_identifier).  Every history with exactly 2 I, 3 B and 3 M (each M
after some B) is a maximal history; all shorter histories are its prefixes, and the clauses are evaluated after every
event, so the maximal histories cover all interleavings of <=2 inputs, <=3 builds, <=3 mutations.

Oracle: the two input texts are written (independent SQL writer of _schema_gen) from two model descriptions
desc1 <= desc2; a build after k inputs must look like expected_view(desc_k) (empty for k = 0) -- pure data.  Non-interference
is a relation between observations of the same object: a snapshot (xtuml.serialize text + structural walk through the
public interface) of every metamodel that was *not* the target of the event must be the same before and after it.

Clauses
  build-contains-exactly-accepted-input      view(build) == expected_view(description of the inputs so far)
  build-equals-fresh-loader-build            serialize(build) == serialize(build of a fresh loader fed the same inputs)
  unchanged-by-mutation-of-another           a mutation of one metamodel changed the snapshot of another
  unchanged-by-later-input / unchanged-by-later-build
"""
import itertools

from vlib.bounded import item

from bounded import _schema_gen as G
from bounded import c01 as C01

MUTATIONS = ('new', 'delete', 'write', 'relate', 'unrelate', 'append_attribute', 'insert_attribute', 'delete_attribute',
             'define_unique_identifier')


# --------------------------------------------------------------------------------------------------- scenarios

def _sub(desc, keep_rows, keep_assocs=True, keep_ids=True, keep_classes=None):
    """Sub-description: the rows with index in keep_rows (global row order), links among them."""
    classes = [c for c in desc['classes'] if keep_classes is None or c['kind'] in keep_classes]
    kinds = set(c['kind'] for c in classes)
    rows = [r for i, r in enumerate(desc['rows']) if i in keep_rows and r['kind'] in kinds]
    # map (kind, index within kind in the full description) -> index within kind in the sub description
    pos, cnt_full, cnt_sub = {}, {}, {}
    for i, r in enumerate(desc['rows']):
        k = r['kind']
        j = cnt_full.get(k, 0)
        cnt_full[k] = j + 1
        if i in keep_rows and k in kinds:
            pos[(k, j)] = cnt_sub.get(k, 0)
            cnt_sub[k] = cnt_sub.get(k, 0) + 1
    assocs = list(desc['assocs']) if keep_assocs else []
    links = []
    if keep_assocs:
        for ai, si, ti in desc['links']:
            a = desc['assocs'][ai]
            s, t = (a['source']['kind'], si), (a['target']['kind'], ti)
            if s in pos and t in pos:
                links.append([ai, pos[s], pos[t]])
    return dict(classes=classes, assocs=assocs, ids=list(desc['ids']) if keep_ids else [], rows=rows, links=links)


def _row_statements(desc):
    return G.sql_rows(desc, style=0)


def scenario(name):
    """-> (text1, desc1, text2, desc2).  desc2 is the whole description; the texts are statements of desc2."""
    if name.startswith('rows-cut'):
        shape, kt, cards, cut = {
            'rows-cut-simple': ('simple', ['UNIQUE_ID'], ('MC', '1'), 4),
            'rows-cut-referred-late': ('simple', ['STRING'], ('M', '1C'), 1),
            'rows-cut-reflexive': ('reflexive', ['INTEGER'], ('1C', '1C'), 2),
            'rows-cut-assoc-class': ('assoc-class', ['UNIQUE_ID'], ('MC', '1'), 7),
            'rows-cut-chain': ('chain', ['REAL'], ('MC', '1'), 5),
            'rows-cut-double-key': ('two-assocs', ['INTEGER', 'STRING'], ('MC', '1C'), 4),
        }[name]
        full = C01.rel_desc(shape, kt, cards[0], cards[1], 2, 'all', 1)
        rows = _row_statements(full)
        if name == 'rows-cut-referred-late':      # the referring rows come first, the rows they refer to in the second input
            keep = set(i for i, r in enumerate(full['rows']) if r['kind'] == 'S')
        else:
            keep = set(range(cut))
        d1 = _sub(full, keep)
        return ('\n'.join(G.sql_schema(full) + [rows[i] for i in sorted(keep)]), d1,
                '\n'.join(rows[i] for i in range(len(rows)) if i not in keep), full)
    if name == 'schema-late':
        full = C01.rel_desc('simple', ['UNIQUE_ID'], 'MC', '1', 2, 'all', 1)
        rows = _row_statements(full)
        nt = len(G.rows_of(full, 'T'))
        d1 = _sub(full, set(range(nt)), keep_assocs=False, keep_ids=False)
        t1 = [G.sql_class(c) for c in full['classes']] + rows[:nt]
        t2 = [G.sql_assoc(a) for a in full['assocs']] + [G.sql_identifier(i) for i in full['ids']] + rows[nt:]
        return '\n'.join(t1), d1, '\n'.join(t2), full
    if name == 'class-late':
        full = C01.rel_desc('assoc-class', ['STRING'], 'MC', '1', 1, 'all', 1)
        rows = _row_statements(full)
        keep = set(i for i, r in enumerate(full['rows']) if r['kind'] == 'A')
        d1 = _sub(full, keep, keep_assocs=False, keep_ids=False, keep_classes=('A',))
        t1 = [G.sql_class(G.class_of(full, 'A'))] + [rows[i] for i in sorted(keep)]
        t2 = [G.sql_class(c) for c in full['classes'] if c['kind'] != 'A'] + [G.sql_assoc(a) for a in full['assocs']] + \
             [G.sql_identifier(i) for i in full['ids']] + [rows[i] for i in range(len(rows)) if i not in keep]
        # per-class order of desc2 is unchanged (rows of A first, as in the full description)
        return '\n'.join(t1), d1, '\n'.join(t2), full
    if name == 'rows-then-schema':
        full = C01.inferred_desc(['INTEGER', 'STRING', 'UNIQUE_ID'], 2)
        rows = _row_statements(full)
        return '\n'.join(rows), full, '\n'.join(G.sql_class(c) for c in full['classes']), full
    raise ValueError(name)


SCENARIOS = ('rows-cut-simple', 'schema-late', 'rows-cut-reflexive', 'rows-cut-assoc-class', 'class-late', 'rows-cut-chain',
             'rows-cut-referred-late', 'rows-cut-double-key', 'rows-then-schema')
EMPTY = dict(classes=[], assocs=[], ids=[], rows=[], links=[])


# --------------------------------------------------------------------------------------------------- mutations

def _first_plain_attr(mc, avoid_keys=True):
    for n, t in mc.attributes:
        if n in mc.referential_attributes:
            continue
        if avoid_keys and n in mc.identifying_attributes:
            continue
        return n, t
    return None


def mutate(m, kind, salt):
    """Apply one of the property's listed changes to metamodel m through the public API.  What the change does to m
    itself is not this property's business; errors of the mutation are ignored."""
    import xtuml
    if kind not in MUTATIONS:
        raise ValueError(kind)
    mcs = list(m.metaclasses.values())
    if not mcs:
        return 'no classes'
    mc = mcs[salt % len(mcs)]
    try:
        if kind == 'new':
            m.new(mc.kind)
        elif kind == 'delete':
            for c in mcs[salt % len(mcs):] + mcs[:salt % len(mcs)]:
                inst = m.select_any(c.kind)
                if inst is not None:
                    xtuml.delete(inst)
                    break
        elif kind == 'write':
            for c in mcs[salt % len(mcs):] + mcs[:salt % len(mcs)]:
                inst = m.select_any(c.kind)
                a = _first_plain_attr(c, avoid_keys=False)
                if inst is not None and a:
                    v = {'BOOLEAN': True, 'INTEGER': 4711 + salt, 'REAL': 47.11, 'STRING': 'mutated %d' % salt,
                         'UNIQUE_ID': 2 ** 100 + salt}[a[1].upper()]
                    setattr(inst, a[0], v)
                    break
        elif kind in ('relate', 'unrelate'):
            for ass in m.associations:
                src_kind, tgt_kind = ass.source_link.kind, ass.target_link.kind
                phrase = ass.target_link.phrase
                done = False
                for s in m.select_many(src_kind):
                    linked = list(xtuml.navigate_many(s).nav(tgt_kind, ass.rel_id, phrase)())
                    if kind == 'unrelate' and linked:
                        xtuml.unrelate(s, linked[0], ass.rel_id, phrase)
                        done = True
                        break
                    if kind == 'relate' and not linked:
                        for t in m.select_many(tgt_kind):
                            try:
                                xtuml.relate(s, t, ass.rel_id, phrase)
                                done = True
                                break
                            except xtuml.MetaException:
                                continue
                        if done:
                            break
                if done:
                    break
            else:
                if kind == 'relate' and m.associations:
                    ass = m.associations[0]
                    s, t = m.new(ass.source_link.kind), m.new(ass.target_link.kind)
                    xtuml.relate(s, t, ass.rel_id, ass.target_link.phrase)
        elif kind == 'append_attribute':
            mc.append_attribute('Extra%d' % salt, 'INTEGER')
            for inst in m.select_many(mc.kind):
                setattr(inst, 'Extra%d' % salt, salt)
        elif kind == 'insert_attribute':
            mc.insert_attribute(0, 'First%d' % salt, 'STRING')
            for inst in m.select_many(mc.kind):
                setattr(inst, 'First%d' % salt, 'f')
        elif kind == 'delete_attribute':
            for c in mcs[salt % len(mcs):] + mcs[:salt % len(mcs)]:
                a = _first_plain_attr(c) or _first_plain_attr(c, avoid_keys=False)
                if a:
                    c.delete_attribute(a[0])
                    break
        elif kind == 'define_unique_identifier':
            a = _first_plain_attr(mc, avoid_keys=False) or (mc.attributes[0] if mc.attributes else None)
            if a:
                m.define_unique_identifier(mc.kind, 'IX%d' % salt, a[0])
    except Exception as e:
        return 'mutation raised %s' % type(e).__name__
    return 'ok'


def snapshot(m):
    import xtuml
    try:
        text = xtuml.serialize(m)
    except Exception as e:
        text = 'serialize raised %s' % type(e).__name__
    try:
        view = G.observe(m)
    except Exception as e:
        view = 'walk raised %s' % type(e).__name__
    return (text, view)


def snap_diff(before, after):
    d = {}
    if before[0] != after[0]:
        a, b = before[0], after[0]
        i = next((k for k, (x, y) in enumerate(zip(a, b)) if x != y), min(len(a), len(b)))
        d['serialize'] = dict(before=a[max(0, i - 80):i + 80], after=b[max(0, i - 80):i + 80])
    if before[1] != after[1]:
        if isinstance(before[1], dict) and isinstance(after[1], dict):
            d['walk'] = [[c, o, r] for c, o, r in G.diff_views(before[1], after[1])]
        else:
            d['walk'] = dict(before=before[1] if not isinstance(before[1], dict) else 'ok', after=after[1] if not isinstance(after[1], dict) else 'ok')
    return d


_FRESH = {}


def fresh_text(name, k, texts):
    import xtuml
    if (name, k) not in _FRESH:
        l = xtuml.ModelLoader()
        for t in texts[:k]:
            l.input(t)
        _FRESH[(name, k)] = xtuml.serialize(l.build_metamodel())
    return _FRESH[(name, k)]


def run_history(name, events):
    """[(clause, observed, required)]"""
    import xtuml
    t1, d1, t2, d2 = scenario(name)
    texts, descs = [t1, t2], [EMPTY, d1, d2]
    loader = xtuml.ModelLoader()
    fed = 0
    built, snaps = [], []
    out = []
    for ei, ev in enumerate(events):
        target = None
        if ev == 'I':
            if fed < 2:
                loader.input(texts[fed])
                fed += 1
            why = 'unchanged-by-later-input'
        elif ev == 'B':
            try:
                m = loader.build_metamodel()
            except Exception as e:
                out.append(('build-contains-exactly-accepted-input',
                            dict(event=ei, inputs=fed, raised='%s: %s' % (type(e).__name__, str(e)[:200])),
                            'the build succeeds and equals the description of the inputs accepted so far'))
                continue
            required = G.expected_view(descs[fed])
            d = G.diff_views(required, G.observe(m))
            if d:
                out.append(('build-contains-exactly-accepted-input', dict(event=ei, inputs=fed, differences=[list(x) for x in d]),
                            'the build equals the description of the inputs accepted so far'))
            s = xtuml.serialize(m)
            ref = fresh_text(name, fed, texts)
            if s != ref:
                i = next((k for k, (x, y) in enumerate(zip(s, ref)) if x != y), min(len(s), len(ref)))
                out.append(('build-equals-fresh-loader-build', dict(event=ei, inputs=fed, observed=s[max(0, i - 80):i + 80]),
                            ref[max(0, i - 80):i + 80]))
            why = 'unchanged-by-later-build'
        else:
            _, kind, j = ev
            target = j % len(built) if built else None
            if target is not None:
                mutate(built[target], kind, ei)
            why = 'unchanged-by-mutation-of-another'
        for j, mj in enumerate(built):
            now = snapshot(mj)
            if j == target:
                snaps[j] = now
                continue
            d = snap_diff(snaps[j], now)
            if d:
                out.append((why, dict(event=ei, event_kind=ev, metamodel=j, changed=d), 'snapshot of metamodel %d unchanged' % j))
                snaps[j] = now
        if ev == 'B':
            built.append(m)
            snaps.append(snapshot(m))
    return out


# --------------------------------------------------------------------------------------------------- enumeration

def skeletons():
    """All arrangements of I I B B B M M M in which every M comes after some B (maximal histories)."""
    seen = []
    for p in sorted(set(itertools.permutations('IIBBBMMM'))):
        ok, b = True, 0
        for e in p:
            if e == 'B':
                b += 1
            elif e == 'M' and b == 0:
                ok = False
                break
        if ok:
            seen.append(p)
    return seen


def histories(quick):
    sk = skeletons()
    triples = list(itertools.product(range(len(MUTATIONS)), repeat=3))
    n = 0
    for si, s in enumerate(sk):
        chosen = triples[si % 9::9] if quick else triples
        for tr in chosen:
            n += 1
            events, mi, b = [], 0, 0
            for e in s:
                if e == 'M':
                    events.append(['M', MUTATIONS[tr[mi]], (n + mi) % 3])
                    mi += 1
                else:
                    events.append(e)
            yield (SCENARIOS[n % len(SCENARIOS)], events)


@item('histories', stands_in_for=['xtuml.load.ModelLoader.build_metamodel', 'xtuml.load.ModelLoader.populate',
                                  'xtuml.meta.MetaModel.define_class', 'xtuml.meta.MetaModel.define_association',
                                  'xtuml.meta.MetaModel.define_unique_identifier', 'xtuml.meta.MetaClass.append_attribute',
                                  'xtuml.meta.MetaClass.insert_attribute', 'xtuml.meta.MetaClass.delete_attribute'],
      shards=15, weight=1,
      bound='all arrangements of 2 inputs, 3 builds, 3 mutations on one loader (mutation only after a build; all shorter '
            'histories are prefixes, clauses evaluated after every event) x mutation-kind triples over 9 kinds (quick: 81 of '
            'the 729 per arrangement, rotating so that all triples occur; thorough: all 729); mutated metamodel and the 9 '
            'input scenarios (C01 shapes split into two inputs: rows cut, schema late, class late, rows before schema) rotate')
def histories_item(ctx):
    for i, (name, events) in enumerate(histories(ctx.quick)):
        if i % ctx.nshards != ctx.shard:
            continue
        if ctx.expired():
            ctx.exhausted = False
            break
        ctx.case(key=(name, events), nontrivial=True)
        for clause, observed, required in run_history(name, events):
            ctx.check(False, clause=clause, input=dict(scenario=name, events=events), observed=observed, required=required)
    else:
        ctx.exhausted = True


@item('scenario-sanity', stands_in_for=[], shards=1, weight=0,
      bound='each of the 9 scenarios: fresh loader, build after 0, 1, 2 inputs equals the description (guards the oracle)')
def scenario_sanity(ctx):
    for name in SCENARIOS:
        events = ['B', 'I', 'B', 'I', 'B']
        ctx.case(key=(name, events), nontrivial=True)
        for clause, observed, required in run_history(name, events):
            ctx.check(False, clause=clause, input=dict(scenario=name, events=events), observed=observed, required=required)
    ctx.exhausted = True


def replay(item_name, input):
    return [dict(clause=c, observed=o, required=r) for c, o, r in run_history(input['scenario'], input['events'])]
