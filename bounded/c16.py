"""C16 (bounded tier) -- Reflexive sorting yields the succession order and terminates.

Code under test: xtuml.sort_reflexive on the real metamodel classes of /repo.

Oracle (written from the property text only): the test keeps its own record of who is whose partner
(`relate(a, b, R, p)` makes b the partner of a across p and a the partner of b across the opposite phrase);
from that record it knows the chains and rings it has built, and checks

  members-exactly-once            the result holds every member of the set exactly once
  chain-contiguous-succession     every chain occupies a contiguous block of the result, begins with the member
                                  that has no partner across the phrase sorted on and continues along the
                                  opposite phrase (for the other phrase this is the reverse order)
  ring-once-around-from-first     a single closed ring: every member once, starting at the first member of
                                  the set, every following element a partner of the one before, one direction
  empty-set-empty-result          an empty set gives an empty result
  bounded-time                    the call returns within the time limit (also for arbitrary subsets and for
                                  sets mixing rings and chains)
  subset-members-only-at-most-once  for arbitrary subsets only this and termination is claimed

Not checked (the property text does not settle it; see ctx.note): the relative order of different chains
in the result, and the direction in which a ring is walked.
"""
import itertools
import signal

import vlib.fresh_ply  # noqa: F401
import xtuml
from vlib.bounded import item

PHRASES = ('precedes', 'succeeds')
TIME_LIMIT_S = 3.0


def _opp(p):
    return PHRASES[1 - PHRASES.index(p)]


class _Timeout(BaseException):
    pass


def _on_alarm(signum, frame):
    raise _Timeout()


def _timed(fn):
    """Run fn() under a wall-clock limit.  Returns (finished, value_or_exception)."""
    old = signal.signal(signal.SIGALRM, _on_alarm)
    signal.setitimer(signal.ITIMER_REAL, TIME_LIMIT_S)
    try:
        try:
            return True, fn()
        finally:
            signal.setitimer(signal.ITIMER_REAL, 0)
    except _Timeout:
        return False, None
    finally:
        signal.signal(signal.SIGALRM, old)


# ------------------------------------------------------------------ building the real model

def _schema(variant):
    """Variants of the schema around the reflexive conditional 1:1 association R1 of class N."""
    m = xtuml.MetaModel(xtuml.IntegerGenerator())
    m.define_class('N', [('Id', 'INTEGER'), ('Prev_Id', 'INTEGER'), ('Other_Id', 'INTEGER'), ('X_Id', 'INTEGER')])
    if variant in (2, 3):
        # more links on the same class, declared before R1: another reflexive association with the same
        # phrases and an association to another class
        m.define_class('X', [('Id', 'INTEGER')])
        a = m.define_association(2, 'N', ['Other_Id'], False, True, PHRASES[1], 'N', ['Id'], False, True, PHRASES[0])
        a.formalize()
        a = m.define_association(3, 'N', ['X_Id'], True, True, '', 'X', ['Id'], False, True, '')
        a.formalize()
    if variant in (1, 3):
        ass = m.define_association(1, 'N', ['Prev_Id'], False, True, PHRASES[0], 'N', ['Id'], False, True, PHRASES[1])
    else:
        ass = m.define_association(1, 'N', ['Prev_Id'], False, True, PHRASES[1], 'N', ['Id'], False, True, PHRASES[0])
    ass.formalize()
    return m


def _build(case):
    """Returns (metamodel, instances by label, partner maps {phrase: {label: label}})."""
    n = case['n']
    m = _schema(case.get('schema', 0))
    inst = [m.new('N', Id=i + 1) for i in range(n)]
    partner = {PHRASES[0]: {}, PHRASES[1]: {}}
    pairs = []
    for ch in case.get('chains', []):
        for a, b in zip(ch, ch[1:]):
            pairs.append((a, b))
    for rg in case.get('rings', []):
        for i in range(len(rg)):
            pairs.append((rg[i], rg[(i + 1) % len(rg)]))
    mode = case.get('relate', 0)
    if mode in (1, 3):
        pairs.reverse()
    for a, b in pairs:
        # a precedes b: b is a's partner across 'precedes', a is b's partner across 'succeeds'
        if mode in (2, 3):
            xtuml.relate(inst[b], inst[a], 1, PHRASES[1])
        else:
            xtuml.relate(inst[a], inst[b], 1, PHRASES[0])
        partner[PHRASES[0]][a] = b
        partner[PHRASES[1]][b] = a
    if case.get('schema', 0) in (2, 3) and n >= 2:
        # distracting links on the other associations (never on R1)
        xtuml.relate(inst[n - 1], inst[0], 2, PHRASES[0])
        x = m.new('X', Id=1)
        for i in inst:
            xtuml.relate(i, x, 3)
    return m, inst, partner


def evaluate(case):
    """Execute one case on the real code; returns a list of dict(clause, observed, required)."""
    out = []
    m, inst, partner = _build(case)
    label = dict((id(x), i) for i, x in enumerate(inst))
    phrase = case['phrase']
    members = case['set']
    if case.get('via_select') and members == list(range(case['n'])):
        qs = m.select_many('N')
    else:
        qs = xtuml.QuerySet([inst[i] for i in members])

    def call():
        r = xtuml.sort_reflexive(qs, 1, phrase)
        return list(r)

    finished, res = _timed(call)
    if not finished:
        return [dict(clause='bounded-time', observed='no result after %.1f s' % TIME_LIMIT_S, required='terminates')]
    got = [label.get(id(x), repr(x)) for x in res]
    kind = case['kind']

    if kind == 'empty':
        if got:
            out.append(dict(clause='empty-set-empty-result', observed=got, required=[]))
        return out

    if kind == 'subset':
        if len(set(got)) != len(got) or not set(got) <= set(members):
            out.append(dict(clause='subset-members-only-at-most-once', observed=got,
                            required='members of %r only, each at most once' % (members,)))
        return out

    if len(got) != len(members) or set(got) != set(members):
        out.append(dict(clause='members-exactly-once', observed=got, required='a permutation of %r' % (sorted(members),)))
        return out

    if kind == 'chains':
        for ch in case['chains']:
            want = list(ch) if phrase == PHRASES[1] else list(reversed(ch))
            # the head has no partner across the phrase sorted on (own record)
            assert want[0] not in partner[phrase]
            j = got.index(want[0])
            if got[j:j + len(want)] != want:
                out.append(dict(clause='chain-contiguous-succession', observed=got,
                                required='contiguous block %r (head has no partner across %r, then along %r)'
                                         % (want, phrase, _opp(phrase))))
                break
    elif kind == 'ring':
        ok = bool(got) and got[0] == members[0]
        if ok:
            for direction in PHRASES:
                if all(partner[direction].get(a) == b for a, b in zip(got, got[1:])):
                    break
            else:
                ok = False
        if not ok:
            out.append(dict(clause='ring-once-around-from-first', observed=got,
                            required='starts at %r and follows the ring %r once around' % (members[0], case['rings'][0])))
    return out


# ------------------------------------------------------------------ enumerators

def arrangements(n):
    """Every way to arrange the labels 0..n-1 into a set of ordered chains (1, 3, 13, 73, 501, 4051, 37633, ...)."""
    def rec(i, chains):
        if i == n:
            yield [list(c) for c in chains]
            return
        chains.append([i])
        for r in rec(i + 1, chains):
            yield r
        chains.pop()
        for c in chains:
            for pos in range(len(c) + 1):
                c.insert(pos, i)
                for r in rec(i + 1, chains):
                    yield r
                del c[pos]
    return rec(0, [])


def set_orders(n, k):
    """A few orders of the members of the set: creation order, reversed, rotations."""
    base = list(range(n))
    yield base
    if n > 1:
        yield base[::-1]
    if n > 2:
        r = 1 + k % (n - 1)
        yield base[r:] + base[:r]


def _run(ctx, cases, sharded=True):
    timeouts = 0
    for i, case in enumerate(cases):
        if sharded and i % ctx.nshards != ctx.shard:
            continue
        if ctx.expired() or timeouts >= 3:
            ctx.exhausted = False
            return
        ctx.case(key=case, nontrivial=len(case['set']) >= 2)
        for f in evaluate(case):
            ctx.check(False, clause=f['clause'], input=case, observed=f['observed'], required=f['required'])
            if f['clause'] == 'bounded-time':
                timeouts += 1
    ctx.exhausted = True


def chain_cases(nmax):
    yield dict(kind='empty', n=0, chains=[], set=[], phrase=PHRASES[0], schema=0, via_select=True)
    yield dict(kind='empty', n=0, chains=[], set=[], phrase=PHRASES[1], schema=1, via_select=True)
    yield dict(kind='empty', n=3, chains=[[0, 1], [2]], set=[], phrase=PHRASES[0], schema=2)
    yield dict(kind='empty', n=3, chains=[[0, 1], [2]], set=[], phrase=PHRASES[1], schema=3)
    k = 0
    for n in range(1, nmax + 1):
        for arr in arrangements(n):
            k += 1
            for order in set_orders(n, k):
                for phrase in PHRASES:
                    yield dict(kind='chains', n=n, chains=arr, set=order, phrase=phrase, schema=k % 4,
                               relate=(k // 4) % 4, via_select=bool(k % 2))


def ring_cases(nmax):
    k = 0
    for n in range(1, nmax + 1):
        for rest in itertools.permutations(range(1, n)):
            ring = [0] + list(rest)
            k += 1
            rots = range(n) if n <= 6 else (0, 1 + k % (n - 1), n - 1)
            for r in rots:
                base = list(range(n))
                orders = [base[r:] + base[:r]]
                if r == 0 and n > 1:
                    orders.append(base[::-1])
                for order in orders:
                    for phrase in PHRASES:
                        yield dict(kind='ring', n=n, rings=[ring], chains=[], set=order, phrase=phrase, schema=k % 4,
                                   relate=(k // 4) % 4, via_select=bool(k % 2))


def subset_cases(nmax):
    """Sets that are not made of whole chains, and sets mixing rings and chains: termination only."""
    k = 0
    for n in range(1, nmax + 1):
        for arr in arrangements(n):
            # every choice of which chains are closed into rings (a closed singleton is related to itself)
            for closed in itertools.product((False, True), repeat=len(arr)):
                chains = [c for c, z in zip(arr, closed) if not z]
                rings = [c for c, z in zip(arr, closed) if z]
                # closing different rotations of a chain gives the same ring: keep the rotation starting at its minimum
                if any(c[0] != min(c) for c in rings):
                    continue
                k += 1
                for mask in range(1, 2 ** n):
                    members = [i for i in range(n) if mask >> i & 1]
                    if k % 2:
                        members.reverse()
                    whole = all(set(c) <= set(members) or not set(c) & set(members) for c in arr)
                    if whole and not rings:
                        continue   # whole chains only: covered by the chain item with the full contract
                    if whole and not chains and len(rings) == 1 and len(members) == n:
                        continue   # a single ring: covered by the ring item
                    for phrase in PHRASES:
                        yield dict(kind='subset', n=n, chains=chains, rings=rings, set=members, phrase=phrase,
                                   schema=k % 4, relate=(k // 4) % 4)


def random_cases(rng, count, nlo, nhi):
    for k in range(count):
        n = rng.randint(nlo, nhi)
        labels = list(range(n))
        rng.shuffle(labels)
        chains = []
        i = 0
        while i < n:
            ln = min(n - i, rng.choice((1, 1, 2, 3, 5, 8, 13, n)))
            chains.append(labels[i:i + ln])
            i += ln
        order = list(range(n))
        how = rng.randint(0, 2)
        if how == 1:
            order.reverse()
        elif how == 2:
            rng.shuffle(order)
        kind = 'chains'
        rings = []
        if rng.random() < 0.15:
            kind, rings, chains = 'ring', [labels], []
        yield dict(kind=kind, n=n, chains=chains, rings=rings, set=order, phrase=PHRASES[k % 2], schema=k % 4,
                   relate=rng.randint(0, 3), via_select=(how == 0))


# ------------------------------------------------------------------ items

_NOTE = ('not checked: order of different chains relative to each other, and the direction in which a closed ring '
         'is walked (the property text fixes neither)')


@item('chains', stands_in_for=['xtuml.meta.sort_reflexive'],
      bound='every arrangement of n labelled instances (label = creation order) into ordered chains, n<=6 quick / n<=7 '
            'thorough (1+3+13+73+501+4051[+37633] arrangements) x 2-3 set orders x both phrases x 4 schema variants / '
            '4 relate orders (rotated); plus the empty set; non-trivial = set of >= 2 members',
      shards=12, weight=3)
def chains(ctx):
    if ctx.shard == 0:
        ctx.note(_NOTE)
    _run(ctx, chain_cases(6 if ctx.quick else 7))


@item('rings', stands_in_for=['xtuml.meta.sort_reflexive'],
      bound='a single closed ring of every length 1..7 (quick) / 1..8 (thorough), every cyclic order of the labelled '
            'instances, every rotation of the set (so every member is the first member once; 3 rotations when n>6), both phrases',
      shards=2, weight=1)
def rings(ctx):
    _run(ctx, ring_cases(7 if ctx.quick else 8))


@item('subsets-termination', stands_in_for=['xtuml.meta.sort_reflexive'],
      bound='n<=5 (quick) / n<=6 (thorough) instances arranged into chains and rings (every arrangement, every choice of '
            'closed chains), every non-empty subset as the set (excluding the whole-chain sets and single rings covered '
            'by the other items), both phrases; only termination within %.0f s and "members only, each at most once"' % TIME_LIMIT_S,
      shards=8, weight=2)
def subsets(ctx):
    _run(ctx, subset_cases(5 if ctx.quick else 6))


@item('random-larger', stands_in_for=['xtuml.meta.sort_reflexive'],
      bound='random arrangements of 8..60 (quick, 400 sets) / 8..200 (thorough, 4000 sets) instances into chains or one ring, '
            'random set order, both phrases; sampled, not exhaustive',
      shards=2, weight=1)
def random_larger(ctx):
    count = 400 if ctx.quick else 4000
    hi = 60 if ctx.quick else 200
    # every shard draws its own sample from ctx.rng (seeded with the shard number)
    _run(ctx, random_cases(ctx.rng, count // ctx.nshards, 8, hi), sharded=False)
    ctx.exhausted = False   # a sample, never the whole space


def replay(item_name, input):
    import logging
    logging.disable(logging.CRITICAL)
    return evaluate(input)
