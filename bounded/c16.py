"""C16 (bounded tier) -- Reflexive sorting yields the succession order and terminates.

Code under test: xtuml.sort_reflexive on the real metamodel classes of /repo.

Oracle (written from the property text only): the test keeps its own record of who is whose partner
(`relate(a, b, R, p)` makes b the partner of a across p and a the partner of b across the opposite phrase);
from that record it knows the chains and rings it has built, and checks

  members-exactly-once            the result holds every member of the set exactly once
  chain-contiguous-succession     every chain occupies a contiguous block of the result, begins with the member
                                  that has no partner across the phrase sorted on and continues along the
                                  opposite phrase (for the other phrase this is the reverse order)
  ring-once-around-from-first     a single closed ring: every member once, starting at the first member of
                                  the set, every following element a partner of the one before, one direction
  empty-set-empty-result          an empty set gives an empty result
  bounded-time                    the call returns within the time limit (also for arbitrary subsets and for
                                  sets mixing rings and chains)
  subset-members-only-at-most-once  for arbitrary subsets only this and termination is claimed

Sets whose chains came about through edits: a case may carry `edits`, a history of ['relate', a, b] / ['unrelate', a, b]
calls (a precedes b) executed in that order on initially unlinked instances; the oracle replays the history on its own
partner record and reads the chains and rings off that record (kind 'edited': whole set, the contract that fits what the
record holds - chains only: full chain contract, one ring: ring contract, otherwise termination and at-most-once;
kind 'edited-subset': an arbitrary subset, termination and at-most-once only).

Not checked (the property text does not settle it; see ctx.note): the relative order of different chains
in the result, and the direction in which a ring is walked.
"""
import itertools
import signal

import vlib.fresh_ply  # noqa: F401
import xtuml
from vlib.bounded import item

PHRASES = ('precedes', 'succeeds')
TIME_LIMIT_S = 3.0


def _opp(p):
    return PHRASES[1 - PHRASES.index(p)]


class _Timeout(BaseException):
    pass


def _on_alarm(signum, frame):
    raise _Timeout()


def _timed(fn):
    """Run fn() under a wall-clock limit.  Returns (finished, value_or_exception)."""
    old = signal.signal(signal.SIGALRM, _on_alarm)
    signal.setitimer(signal.ITIMER_REAL, TIME_LIMIT_S)
    try:
        try:
            return True, fn()
        finally:
            signal.setitimer(signal.ITIMER_REAL, 0)
    except _Timeout:
        return False, None
    finally:
        signal.signal(signal.SIGALRM, old)


# ------------------------------------------------------------------ building the real model

def _schema(variant):
    """Variants of the schema around the reflexive conditional 1:1 association R1 of class N."""
    m = xtuml.MetaModel(xtuml.IntegerGenerator())
    m.define_class('N', [('Id', 'INTEGER'), ('Prev_Id', 'INTEGER'), ('Other_Id', 'INTEGER'), ('X_Id', 'INTEGER')])
    if variant in (2, 3):
        # more links on the same class, declared before R1: another reflexive association with the same
        # phrases and an association to another class
        m.define_class('X', [('Id', 'INTEGER')])
        a = m.define_association(2, 'N', ['Other_Id'], False, True, PHRASES[1], 'N', ['Id'], False, True, PHRASES[0])
        a.formalize()
        a = m.define_association(3, 'N', ['X_Id'], True, True, '', 'X', ['Id'], False, True, '')
        a.formalize()
    if variant in (1, 3):
        ass = m.define_association(1, 'N', ['Prev_Id'], False, True, PHRASES[0], 'N', ['Id'], False, True, PHRASES[1])
    else:
        ass = m.define_association(1, 'N', ['Prev_Id'], False, True, PHRASES[1], 'N', ['Id'], False, True, PHRASES[0])
    ass.formalize()
    return m


class SetupFailed(Exception):
    """Building the links of a case was refused by the code under test (a matter of C02, not of sorting)."""


def _edit_record(partner, verb, a, b):
    """The oracle's own record of one edit; a precedes b.  Returns False when the edit is not applicable to the record."""
    if verb == 'relate':
        if a in partner[PHRASES[0]] or b in partner[PHRASES[1]]:
            return False
        partner[PHRASES[0]][a] = b
        partner[PHRASES[1]][b] = a
        return True
    if partner[PHRASES[0]].get(a, None) != b or a not in partner[PHRASES[0]]:
        return False
    del partner[PHRASES[0]][a]
    del partner[PHRASES[1]][b]
    return True


def arrangement_of(n, partner):
    """(chains, rings) read off the partner record: a chain starts at a member nobody precedes and follows 'precedes'."""
    chains, rings, seen = [], [], set()
    for h in range(n):
        if h not in partner[PHRASES[1]]:
            ch = [h]
            while ch[-1] in partner[PHRASES[0]]:
                ch.append(partner[PHRASES[0]][ch[-1]])
            chains.append(ch)
            seen.update(ch)
    for x in range(n):
        if x not in seen:
            rg = [x]
            while partner[PHRASES[0]][rg[-1]] != x:
                rg.append(partner[PHRASES[0]][rg[-1]])
            rings.append(rg)
            seen.update(rg)
    return chains, rings


def _build(case):
    """Returns (metamodel, instances by label, partner maps {phrase: {label: label}})."""
    n = case['n']
    m = _schema(case.get('schema', 0))
    inst = [m.new('N', Id=i + 1) for i in range(n)]
    partner = {PHRASES[0]: {}, PHRASES[1]: {}}
    if 'edits' in case:
        mode = case.get('relate', 0)
        for k, (verb, a, b) in enumerate(case['edits']):
            if not _edit_record(partner, verb, a, b):
                raise ValueError('edit %d of the case is not applicable: %r' % (k, (verb, a, b)))
            fn = xtuml.relate if verb == 'relate' else xtuml.unrelate
            # the call is written from a's side or from b's side (mode 0: a's, 2: b's, 1 and 3: alternating)
            from_b = (mode == 2) or (mode == 1 and k % 2 == 1) or (mode == 3 and k % 2 == 0)
            try:
                if from_b:
                    fn(inst[b], inst[a], 1, PHRASES[1])
                else:
                    fn(inst[a], inst[b], 1, PHRASES[0])
            except Exception as e:
                raise SetupFailed('%s(%d, %d) as edit %d: %s: %s' % (verb, a, b, k, type(e).__name__, e))
        return m, inst, partner
    pairs = []
    for ch in case.get('chains', []):
        for a, b in zip(ch, ch[1:]):
            pairs.append((a, b))
    for rg in case.get('rings', []):
        for i in range(len(rg)):
            pairs.append((rg[i], rg[(i + 1) % len(rg)]))
    mode = case.get('relate', 0)
    if mode in (1, 3):
        pairs.reverse()
    for a, b in pairs:
        # a precedes b: b is a's partner across 'precedes', a is b's partner across 'succeeds'
        if mode in (2, 3):
            xtuml.relate(inst[b], inst[a], 1, PHRASES[1])
        else:
            xtuml.relate(inst[a], inst[b], 1, PHRASES[0])
        partner[PHRASES[0]][a] = b
        partner[PHRASES[1]][b] = a
    if case.get('schema', 0) in (2, 3) and n >= 2:
        # distracting links on the other associations (never on R1)
        xtuml.relate(inst[n - 1], inst[0], 2, PHRASES[0])
        x = m.new('X', Id=1)
        for i in inst:
            xtuml.relate(i, x, 3)
    return m, inst, partner


def evaluate(case):
    """Execute one case on the real code; returns a list of dict(clause, observed, required)."""
    out = []
    m, inst, partner = _build(case)
    label = dict((id(x), i) for i, x in enumerate(inst))
    phrase = case['phrase']
    members = case['set']
    kind = case['kind']
    the_chains, the_rings = case.get('chains', []), case.get('rings', [])
    if 'edits' in case:
        the_chains, the_rings = arrangement_of(case['n'], partner)
        if not members:
            kind = 'empty'
        elif kind == 'edited-subset' or sorted(members) != list(range(case['n'])):
            kind = 'subset'
        elif not the_rings:
            kind = 'chains'
        elif not the_chains and len(the_rings) == 1:
            kind = 'ring'
        else:
            kind = 'subset'
    if case.get('via_select') and members == list(range(case['n'])):
        qs = m.select_many('N')
    else:
        qs = xtuml.QuerySet([inst[i] for i in members])

    def call():
        r = xtuml.sort_reflexive(qs, 1, phrase)
        return list(r)

    finished, res = _timed(call)
    if not finished:
        return [dict(clause='bounded-time', observed='no result after %.1f s' % TIME_LIMIT_S, required='terminates')]
    got = [label.get(id(x), repr(x)) for x in res]

    if kind == 'empty':
        if got:
            out.append(dict(clause='empty-set-empty-result', observed=got, required=[]))
        return out

    if kind == 'subset':
        if len(set(got)) != len(got) or not set(got) <= set(members):
            out.append(dict(clause='subset-members-only-at-most-once', observed=got,
                            required='members of %r only, each at most once' % (members,)))
        return out

    if len(got) != len(members) or set(got) != set(members):
        out.append(dict(clause='members-exactly-once', observed=got, required='a permutation of %r' % (sorted(members),)))
        return out

    if kind == 'chains':
        for ch in the_chains:
            want = list(ch) if phrase == PHRASES[1] else list(reversed(ch))
            # the head has no partner across the phrase sorted on (own record)
            assert want[0] not in partner[phrase]
            j = got.index(want[0])
            if got[j:j + len(want)] != want:
                out.append(dict(clause='chain-contiguous-succession', observed=got,
                                required='contiguous block %r (head has no partner across %r, then along %r)'
                                         % (want, phrase, _opp(phrase))))
                break
    elif kind == 'ring':
        ok = bool(got) and got[0] == members[0]
        if ok:
            for direction in PHRASES:
                if all(partner[direction].get(a) == b for a, b in zip(got, got[1:])):
                    break
            else:
                ok = False
        if not ok:
            out.append(dict(clause='ring-once-around-from-first', observed=got,
                            required='starts at %r and follows the ring %r once around' % (members[0], the_rings[0])))
    return out


# ------------------------------------------------------------------ enumerators

def arrangements(n):
    """Every way to arrange the labels 0..n-1 into a set of ordered chains (1, 3, 13, 73, 501, 4051, 37633, ...)."""
    def rec(i, chains):
        if i == n:
            yield [list(c) for c in chains]
            return
        chains.append([i])
        for r in rec(i + 1, chains):
            yield r
        chains.pop()
        for c in chains:
            for pos in range(len(c) + 1):
                c.insert(pos, i)
                for r in rec(i + 1, chains):
                    yield r
                del c[pos]
    return rec(0, [])


def set_orders(n, k):
    """A few orders of the members of the set: creation order, reversed, rotations."""
    base = list(range(n))
    yield base
    if n > 1:
        yield base[::-1]
    if n > 2:
        r = 1 + k % (n - 1)
        yield base[r:] + base[:r]


def _run(ctx, cases, sharded=True):
    timeouts = 0
    for i, case in enumerate(cases):
        if sharded and i % ctx.nshards != ctx.shard:
            continue
        if ctx.expired() or timeouts >= 3:
            ctx.exhausted = False
            return
        ctx.case(key=case, nontrivial=len(case['set']) >= 2)
        try:
            found = evaluate(case)
        except SetupFailed as e:
            ctx.note('case left out, its links could not be built (C02): %s' % e)
            continue
        for f in found:
            ctx.check(False, clause=f['clause'], input=case, observed=f['observed'], required=f['required'])
            if f['clause'] == 'bounded-time':
                timeouts += 1
    ctx.exhausted = True


def chain_cases(nmax):
    yield dict(kind='empty', n=0, chains=[], set=[], phrase=PHRASES[0], schema=0, via_select=True)
    yield dict(kind='empty', n=0, chains=[], set=[], phrase=PHRASES[1], schema=1, via_select=True)
    yield dict(kind='empty', n=3, chains=[[0, 1], [2]], set=[], phrase=PHRASES[0], schema=2)
    yield dict(kind='empty', n=3, chains=[[0, 1], [2]], set=[], phrase=PHRASES[1], schema=3)
    k = 0
    for n in range(1, nmax + 1):
        for arr in arrangements(n):
            k += 1
            for order in set_orders(n, k):
                for phrase in PHRASES:
                    yield dict(kind='chains', n=n, chains=arr, set=order, phrase=phrase, schema=k % 4,
                               relate=(k // 4) % 4, via_select=bool(k % 2))


def ring_cases(nmax):
    k = 0
    for n in range(1, nmax + 1):
        for rest in itertools.permutations(range(1, n)):
            ring = [0] + list(rest)
            k += 1
            rots = range(n) if n <= 6 else (0, 1 + k % (n - 1), n - 1)
            for r in rots:
                base = list(range(n))
                orders = [base[r:] + base[:r]]
                if r == 0 and n > 1:
                    orders.append(base[::-1])
                for order in orders:
                    for phrase in PHRASES:
                        yield dict(kind='ring', n=n, rings=[ring], chains=[], set=order, phrase=phrase, schema=k % 4,
                                   relate=(k // 4) % 4, via_select=bool(k % 2))


def subset_cases(nmax):
    """Sets that are not made of whole chains, and sets mixing rings and chains: termination only."""
    k = 0
    for n in range(1, nmax + 1):
        for arr in arrangements(n):
            # every choice of which chains are closed into rings (a closed singleton is related to itself)
            for closed in itertools.product((False, True), repeat=len(arr)):
                chains = [c for c, z in zip(arr, closed) if not z]
                rings = [c for c, z in zip(arr, closed) if z]
                # closing different rotations of a chain gives the same ring: keep the rotation starting at its minimum
                if any(c[0] != min(c) for c in rings):
                    continue
                k += 1
                for mask in range(1, 2 ** n):
                    members = [i for i in range(n) if mask >> i & 1]
                    if k % 2:
                        members.reverse()
                    whole = all(set(c) <= set(members) or not set(c) & set(members) for c in arr)
                    if whole and not rings:
                        continue   # whole chains only: covered by the chain item with the full contract
                    if whole and not chains and len(rings) == 1 and len(members) == n:
                        continue   # a single ring: covered by the ring item
                    for phrase in PHRASES:
                        yield dict(kind='subset', n=n, chains=chains, rings=rings, set=members, phrase=phrase,
                                   schema=k % 4, relate=(k // 4) % 4)


def random_cases(rng, count, nlo, nhi):
    for k in range(count):
        n = rng.randint(nlo, nhi)
        labels = list(range(n))
        rng.shuffle(labels)
        chains = []
        i = 0
        while i < n:
            ln = min(n - i, rng.choice((1, 1, 2, 3, 5, 8, 13, n)))
            chains.append(labels[i:i + ln])
            i += ln
        order = list(range(n))
        how = rng.randint(0, 2)
        if how == 1:
            order.reverse()
        elif how == 2:
            rng.shuffle(order)
        kind = 'chains'
        rings = []
        if rng.random() < 0.15:
            kind, rings, chains = 'ring', [labels], []
        yield dict(kind=kind, n=n, chains=chains, rings=rings, set=order, phrase=PHRASES[k % 2], schema=k % 4,
                   relate=rng.randint(0, 3), via_select=(how == 0))


# ------------------------------------------------------------------ sets whose chains came about through edits

def _valid_edits(n, partner, self_links):
    for a in range(n):
        if a in partner[PHRASES[0]]:
            yield ['unrelate', a, partner[PHRASES[0]][a]]
        else:
            for b in [x for x in range(n) if x != a] + [a]:
                if b not in partner[PHRASES[1]] and (self_links or a != b):
                    yield ['relate', a, b]


def edit_histories(n, length, canonical=True):
    """Every history of 1..length applicable edits on n unlinked instances (relate a,b: a has no successor and b no
    predecessor yet, a == b allowed; unrelate of a linked pair); canonical: up to renaming of instances (an instance is
    first mentioned only after all instances with smaller labels)."""
    partner = {PHRASES[0]: {}, PHRASES[1]: {}}
    edits = []

    def rec(used):
        if edits:
            yield list(edits)
        if len(edits) == length:
            return
        for e in list(_valid_edits(n, partner, True)):
            u = used
            if canonical:
                if e[1] > u + 1:
                    continue
                u = max(u, e[1])
                if e[2] > u + 1:
                    continue
                u = max(u, e[2])
            _edit_record(partner, *e)
            edits.append(e)
            for r in rec(u):
                yield r
            edits.pop()
            _edit_record(partner, 'unrelate' if e[0] == 'relate' else 'relate', e[1], e[2])
    return rec(-1)


def closed_arrangements(n):
    """Every arrangement of n labels into chains and rings (each chain of an arrangement open or closed)."""
    for arr in arrangements(n):
        for closed in itertools.product((False, True), repeat=len(arr)):
            if any(c[0] != min(c) for c, z in zip(arr, closed) if z):
                continue
            yield [c for c, z in zip(arr, closed) if not z], [c for c, z in zip(arr, closed) if z]


def _pairs(chains, rings):
    out = []
    for ch in chains:
        out += list(zip(ch, ch[1:]))
    for rg in rings:
        out += [(rg[i], rg[(i + 1) % len(rg)]) for i in range(len(rg))]
    return out


def rearrangements(n, stride=1, offset=0):
    """Edit histories that build one arrangement A (chains and rings) with relate calls and turn it into another one, B (chains
    only, or a single ring), by unrelating the links B does not have and relating the ones A did not have: splits, joins,
    moved heads and tails, opened and closed rings, dismantled chains.  Every ordered pair (A, B), A != B."""
    targets = [(c, r) for c, r in closed_arrangements(n) if not r or (not c and len(r) == 1)]
    k = -1
    for ac, ar in closed_arrangements(n):
        pa = _pairs(ac, ar)
        for bc, br in targets:
            pb = _pairs(bc, br)
            if set(pa) == set(pb):
                continue
            k += 1
            if k % stride != offset:
                continue
            removed = [p for p in pa if p not in pb]
            added = [p for p in pb if p not in pa]
            if k % 2:
                removed.reverse()
            if k % 4 >= 2:
                added.reverse()
            edits = [['relate', a, b] for a, b in (pa if k % 3 else pa[::-1])]
            if k % 5 == 0 and removed and added:
                # interleaved: the links are taken away one by one, every new link as soon as the record allows it
                partner = {PHRASES[0]: {}, PHRASES[1]: {}}
                for _, a, b in edits:
                    _edit_record(partner, 'relate', a, b)
                todo = list(added)
                for a, b in removed:
                    edits.append(['unrelate', a, b])
                    _edit_record(partner, 'unrelate', a, b)
                    for x, y in list(todo):
                        if _edit_record(partner, 'relate', x, y):
                            edits.append(['relate', x, y])
                            todo.remove((x, y))
                assert not todo
            else:
                edits += [['unrelate', a, b] for a, b in removed] + [['relate', a, b] for a, b in added]
            yield k, edits


def edited_cases(quick):
    k = 0
    # 1. every short edit history
    for n, length in ((2, 6), (3, 5 if quick else 6), (4, 4 if quick else 5)):
        for edits in edit_histories(n, length):
            k += 1
            for order in set_orders(n, k):
                for phrase in PHRASES:
                    yield dict(kind='edited', n=n, edits=edits, set=order, phrase=phrase, schema=k % 4, relate=(k // 4) % 4,
                               via_select=bool(k % 2))
            if n <= 3 and any(e[0] == 'unrelate' for e in edits):
                for mask in range(1, 2 ** n - 1):
                    yield dict(kind='edited-subset', n=n, edits=edits, set=[i for i in range(n) if mask >> i & 1], phrase=PHRASES[k % 2],
                               schema=k % 4, relate=(k // 4) % 4)
    # 2. every arrangement turned into every other one
    for n, stride in ((2, 1), (3, 1), (4, 1), (5, 48 if quick else 4)):
        for j, edits in rearrangements(n, stride, 3 % stride):
            k += 1
            for order in set_orders(n, j):
                for phrase in PHRASES:
                    yield dict(kind='edited', n=n, edits=edits, set=order, phrase=phrase, schema=j % 4, relate=(j // 4) % 4,
                               via_select=bool(j % 2))


def random_edited_cases(rng, count, nlo, nhi):
    for k in range(count):
        n = rng.randint(nlo, nhi)
        partner = {PHRASES[0]: {}, PHRASES[1]: {}}
        edits = []
        p_unrelate = rng.choice((0.2, 0.35, 0.5))
        for _ in range(rng.randint(n, 4 * n)):
            linked = sorted(partner[PHRASES[0]])
            if linked and rng.random() < p_unrelate:
                a = rng.choice(linked)
                e = ['unrelate', a, partner[PHRASES[0]][a]]
            else:
                free_a = [a for a in range(n) if a not in partner[PHRASES[0]]]
                free_b = [b for b in range(n) if b not in partner[PHRASES[1]]]
                if not free_a or not free_b:
                    continue
                a = rng.choice(free_a)
                cands = [b for b in free_b if b != a] or free_b
                e = ['relate', a, rng.choice(cands)]
            _edit_record(partner, *e)
            edits.append(e)
        if rng.random() < 0.7:
            # open the rings, so that the set is made of whole chains and the full contract applies
            chains, rings = arrangement_of(n, partner)
            for rg in rings:
                e = ['unrelate', rg[-1], rg[0]]
                _edit_record(partner, *e)
                edits.append(e)
        order = list(range(n))
        how = rng.randint(0, 2)
        if how == 1:
            order.reverse()
        elif how == 2:
            rng.shuffle(order)
        yield dict(kind='edited', n=n, edits=edits, set=order, phrase=PHRASES[k % 2], schema=k % 4, relate=rng.randint(0, 3),
                   via_select=(how == 0))


# ------------------------------------------------------------------ items

_NOTE = ('not checked: order of different chains relative to each other, and the direction in which a closed ring '
         'is walked (the property text fixes neither)')


@item('chains', stands_in_for=['xtuml.meta.sort_reflexive'],
      bound='every arrangement of n labelled instances (label = creation order) into ordered chains, n<=6 quick / n<=7 '
            'thorough (1+3+13+73+501+4051[+37633] arrangements) x 2-3 set orders x both phrases x 4 schema variants / '
            '4 relate orders (rotated); plus the empty set; non-trivial = set of >= 2 members',
      shards=4, weight=3)
def chains(ctx):
    if ctx.shard == 0:
        ctx.note(_NOTE)
    _run(ctx, chain_cases(6 if ctx.quick else 7))


@item('rings', stands_in_for=['xtuml.meta.sort_reflexive'],
      bound='a single closed ring of every length 1..7 (quick) / 1..8 (thorough), every cyclic order of the labelled '
            'instances, every rotation of the set (so every member is the first member once; 3 rotations when n>6), both phrases',
      shards=1, weight=1)
def rings(ctx):
    _run(ctx, ring_cases(7 if ctx.quick else 8))


@item('subsets-termination', stands_in_for=['xtuml.meta.sort_reflexive'],
      bound='n<=5 (quick) / n<=6 (thorough) instances arranged into chains and rings (every arrangement, every choice of '
            'closed chains), every non-empty subset as the set (excluding the whole-chain sets and single rings covered '
            'by the other items), both phrases; only termination within %.0f s and "members only, each at most once"' % TIME_LIMIT_S,
      shards=4, weight=2)
def subsets(ctx):
    _run(ctx, subset_cases(5 if ctx.quick else 6))


@item('random-larger', stands_in_for=['xtuml.meta.sort_reflexive'],
      bound='random arrangements of 8..60 (quick, 400 sets) / 8..200 (thorough, 4000 sets) instances into chains or one ring, '
            'random set order, both phrases; sampled, not exhaustive',
      shards=1, weight=1)
def random_larger(ctx):
    count = 400 if ctx.quick else 4000
    hi = 60 if ctx.quick else 200
    # every shard draws its own sample from ctx.rng (seeded with the shard number)
    _run(ctx, random_cases(ctx.rng, count // ctx.nshards, 8, hi), sharded=False)
    ctx.exhausted = False   # a sample, never the whole space


@item('edited-chains', stands_in_for=['xtuml.meta.sort_reflexive'],
      bound='sets whose chains came about through relate AND unrelate calls: (1) every history of applicable edits (relate of two '
            'free ends incl. an instance with itself, unrelate of a linked pair; up to renaming of instances) of length <= 6 on 2, '
            '<= 5 (thorough 6) on 3 and <= 4 (thorough 5) on 4 instances, the whole set sorted afterwards in 2-3 set orders on both '
            'phrases, for n <= 3 also every proper subset (termination only); (2) every arrangement of n <= 4 instances into chains and '
            'rings built by relate calls and then turned into every other arrangement into chains (or into one ring) by unrelating and '
            'relating the differing links (splits, joins, head moved to the tail, rings opened/closed, chains dismantled; in 3 edit '
            'orders, every 5th interleaved), n = 5: every 48th pair (thorough: every 4th); calls written from either side (4 modes, rotated), '
            '4 schema variants; the contract is chosen by what the oracle record holds after the history (chains / one ring / mixed)',
      shards=5, weight=3)
def edited_chains(ctx):
    if ctx.shard == 0:
        ctx.note(_NOTE)
    _run(ctx, edited_cases(ctx.quick))


@item('random-edited', stands_in_for=['xtuml.meta.sort_reflexive'],
      bound='random edit histories (n..4n applicable relate/unrelate calls, 20-50% unrelate) on 5..16 (quick, 600 sets) / 5..40 (thorough, '
            '6000 sets) instances, rings opened at the end in 70% of the histories, random set order, both phrases; sampled',
      shards=1, weight=1)
def random_edited(ctx):
    _run(ctx, random_edited_cases(ctx.rng, 600 if ctx.quick else 6000, 5, 16 if ctx.quick else 40), sharded=False)
    ctx.exhausted = False


def replay(item_name, input):
    import logging
    logging.disable(logging.CRITICAL)
    return evaluate(input)
