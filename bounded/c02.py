"""C02 (bounded tier): links stay symmetric, bounded and atomic through any operation history.

Real code driven: xtuml.relate / unrelate / delete, MetaModel.new, navigate_many (Link.navigate), referential attribute
reads (Association.formalize), MetaModel.select_many.

Oracle (written from the property text; a plain relational model): per association a set of (source, target) pairs,
per class the list of live instances, per instance its identifying value.
  * relate(p, q, rel, phrase) addresses the association with that id whose ends have the kinds of p and q and whose phrase
    fits: with the source end's phrase p is the source (the instance holding the referential attribute), with the target
    end's phrase q is the source (tests/test_xtuml/test_phrase.py); nothing fits -> UnknownLinkException, model unchanged;
  * already related pair -> no-op; a single-valued end that has a partner -> RelateException, model unchanged;
  * unrelate of an unlinked pair -> UnrelateException, model unchanged; else the pair is removed (undoes the relate);
  * delete of a live instance removes it from its pool and removes every pair it is part of; repeated delete ->
    DeleteException, model unchanged;
  * relate with a deleted instance: the property only says that afterwards no deleted instance may be reachable, i.e.
    the model must be unchanged whatever the call answers (clause only-live-reachable; DESIGN section 6, K1);
  * after every step: navigation source->target and target->source are converse (symmetry), only live instances are
    reached, pools hold exactly the live instances, a referential attribute reads as the identifying attribute of the one
    linked instance and as None when unlinked (not judged while an instance has several partners on that end).

A case is dict(shape=<name>, ops=[...]); operations (labels a1, b2, ... name the instances in creation order per class):
  ['relate', p, q, rel, phrase]  ['unrelate', p, q, rel, phrase]  ['delete', p]  ['new', kind]
Every prefix of a history is a case of its own, so only the last step of a case is judged; a failing case is reported only
when the history without its last operation passes on every step.
"""
import itertools
import signal

import vlib.fresh_ply  # noqa: F401
import xtuml

from vlib.bounded import item

CPU_LIMIT_S = 2.0
KEY_CAP = 100000


class Failure(Exception):
    def __init__(self, clause, observed, required):
        Exception.__init__(self, clause)
        self.clause, self.observed, self.required = clause, observed, required


class Skip(Exception):
    """History outside the enumerated space (more than the allowed number of 'new', label not created yet)."""


class _Timeout(BaseException):
    pass


def _on_timer(signum, frame):
    raise _Timeout()


try:
    signal.signal(signal.SIGVTALRM, _on_timer)
    _HANDLER = True
except ValueError:
    _HANDLER = False


def _exc(e):
    return '%s: %s' % (type(e).__name__, e)


# ----------------------------------------------------------------------------------------------------------------------
# association shapes
# ----------------------------------------------------------------------------------------------------------------------
class Assoc(object):
    def __init__(self, rel, src, skeys, smany, scond, sphrase, tgt, tkeys, tmany, tcond, tphrase):
        self.rel, self.src, self.skeys, self.smany, self.scond, self.sphrase = rel, src, skeys, smany, scond, sphrase
        self.tgt, self.tkeys, self.tmany, self.tcond, self.tphrase = tgt, tkeys, tmany, tcond, tphrase


class Shape(object):
    def __init__(self, name, classes, ids, assocs, pool, prefix, extra_new=1):
        self.name = name
        self.classes = classes      # [(kind, [(attr, type)])]
        self.ids = ids              # kind -> identifying attribute that is NOT referential (None for subtypes)
        self.assocs = assocs
        self.pool = pool            # kinds of the initial instances, in creation order
        self.prefix = prefix        # kind -> label prefix
        self.extra_new = extra_new  # how many instances per kind a history may add

    def kinds(self):
        return [k for k, _ in self.classes]


def _two(name, smany, scond, tmany, tcond):
    return Shape(name,
                 [('A', [('Id', 'unique_id'), ('Name', 'string')]), ('B', [('Id', 'unique_id'), ('A_Id', 'unique_id')])],
                 {'A': 'Id', 'B': 'Id'},
                 [Assoc('R1', 'B', ['A_Id'], smany, scond, '', 'A', ['Id'], tmany, tcond, '')],
                 ['A', 'A', 'B', 'B'], {'A': 'a', 'B': 'b'})


SHAPES = {}
for _s in [
    _two('one-one', False, False, False, False),            # 1:1 unconditional
    _two('one-one-c', False, True, False, True),            # 1C:1C
    _two('many-one', True, True, False, True),              # MC B -> 1C A   (DESIGN section 6, F1)
    _two('many-one-u', True, False, False, False),          # M B -> 1 A
    _two('one-many', False, True, True, True),              # 1C B -> MC A   (many on the identifying side)
    Shape('reflexive-one', [('A', [('Id', 'unique_id'), ('Next_Id', 'unique_id')])], {'A': 'Id'},
          [Assoc('R1', 'A', ['Next_Id'], False, True, 'precedes', 'A', ['Id'], False, True, 'succeeds')],
          ['A', 'A', 'A'], {'A': 'a'}),
    Shape('reflexive-many', [('A', [('Id', 'unique_id'), ('Parent_Id', 'unique_id')])], {'A': 'Id'},
          [Assoc('R1', 'A', ['Parent_Id'], True, True, 'child', 'A', ['Id'], False, True, 'parent')],
          ['A', 'A', 'A'], {'A': 'a'}),
    Shape('assoc-class', [('A', [('Id', 'unique_id')]), ('B', [('Id', 'unique_id')]),
                          ('C', [('Id', 'unique_id'), ('A_Id', 'unique_id'), ('B_Id', 'unique_id')])],
          {'A': 'Id', 'B': 'Id', 'C': 'Id'},
          [Assoc('R1', 'C', ['A_Id'], True, True, '', 'A', ['Id'], False, False, ''),
           Assoc('R1', 'C', ['B_Id'], True, True, '', 'B', ['Id'], False, False, '')],
          ['A', 'A', 'B', 'C', 'C'], {'A': 'a', 'B': 'b', 'C': 'c'}),
    Shape('assoc-class-phrases', [('K', [('ID', 'unique_id')]),
                                  ('S', [('Id', 'unique_id'), ('one_side_ID', 'unique_id'), ('other_side_ID', 'unique_id')])],
          {'K': 'ID', 'S': 'Id'},
          [Assoc('R1', 'S', ['one_side_ID'], True, True, 'one', 'K', ['ID'], False, False, 'other'),
           Assoc('R1', 'S', ['other_side_ID'], True, True, 'other', 'K', ['ID'], False, False, 'one')],
          ['K', 'K', 'S', 'S'], {'K': 'k', 'S': 's'}),
    Shape('subsuper', [('P', [('Id', 'unique_id')]), ('SA', [('Id', 'unique_id')]), ('SB', [('Id', 'unique_id')])],
          {'P': 'Id', 'SA': None, 'SB': None},
          [Assoc('R1', 'SA', ['Id'], False, True, '', 'P', ['Id'], False, False, ''),
           Assoc('R1', 'SB', ['Id'], False, True, '', 'P', ['Id'], False, False, '')],
          ['P', 'P', 'SA', 'SB'], {'P': 'p', 'SA': 'sa', 'SB': 'sb'}),
]:
    SHAPES[_s.name] = _s


def _norm_rel(rel):
    return 'R%d' % rel if isinstance(rel, int) else rel


# ----------------------------------------------------------------------------------------------------------------------
# real model + oracle
# ----------------------------------------------------------------------------------------------------------------------
class World(object):
    def __init__(self, shape):
        self.shape = shape
        m = self.m = xtuml.MetaModel(xtuml.IntegerGenerator())
        for kind, attrs in shape.classes:
            m.define_class(kind, list(attrs))
        for a in shape.assocs:
            ass = m.define_association(a.rel, a.src, list(a.skeys), a.smany, a.scond, a.sphrase,
                                       a.tgt, list(a.tkeys), a.tmany, a.tcond, a.tphrase)
            ass.formalize()
        self.inst = {}        # label -> real instance
        self.by_id = {}       # id(real instance) -> label
        self.kind = {}        # label -> kind
        self.alive = {}       # label -> bool
        self.idval = {}       # label -> identifying value (None when the class has no non-referential identifier)
        self.order = []       # labels in creation order
        self.count = {}       # kind -> number of instances made
        self.added = {}       # kind -> number made by 'new' operations
        self.pairs = [set() for _ in shape.assocs]     # oracle: (source label, target label)
        self.next_id = 100
        for kind in shape.pool:
            self.new(kind)

    def new(self, kind):
        n = self.count.get(kind, 0) + 1
        self.count[kind] = n
        label = '%s%d' % (self.shape.prefix[kind], n)
        idattr = self.shape.ids[kind]
        if idattr is not None:
            self.next_id += 1
            inst = self.m.new(kind, **{idattr: self.next_id})
            self.idval[label] = self.next_id
        else:
            inst = self.m.new(kind)
            self.idval[label] = None
        self.inst[label], self.kind[label], self.alive[label] = inst, kind, True
        self.by_id[id(inst)] = label
        self.order.append(label)
        return label

    def label(self, inst):
        return self.by_id.get(id(inst), '<unknown %r>' % (inst,))

    # -- oracle ---------------------------------------------------------------------------------------------------------
    def resolve(self, p, q, rel, phrase):
        """(association index, source label, target label) or None when nothing fits."""
        rel = _norm_rel(rel)
        kp, kq = self.kind[p], self.kind[q]
        for i, a in enumerate(self.shape.assocs):
            if a.rel != rel:
                continue
            if a.src == kp and a.tgt == kq and a.sphrase == phrase:
                return i, p, q
            if a.tgt == kp and a.src == kq and a.tphrase == phrase:
                return i, q, p
        return None

    def expect(self, op):
        """Returns dict(outcome=None|exception name|'any', unchanged=bool, clause=<name of the model-equality clause>, apply=callable)."""
        k = op[0]
        if k in ('relate', 'unrelate'):
            _, p, q, rel, phrase = op
            r = self.resolve(p, q, rel, phrase)
            if r is None:
                return dict(outcome='UnknownLinkException', unchanged=True, clause='rejected-call-leaves-model-unchanged')
            i, s, t = r
            a = self.shape.assocs[i]
            if k == 'relate':
                if not (self.alive[p] and self.alive[q]):
                    return dict(outcome='any', unchanged=True, clause='only-live-reachable')
                if (s, t) in self.pairs[i]:
                    return dict(outcome=None, unchanged=True, clause='relate-related-pair-is-noop')
                s_has = any(x == s for (x, y) in self.pairs[i])
                t_has = any(y == t for (x, y) in self.pairs[i])
                if (not a.tmany and s_has) or (not a.smany and t_has):
                    return dict(outcome='RelateException', unchanged=True, clause='rejected-call-leaves-model-unchanged')
                return dict(outcome=None, unchanged=False, clause='relate-links-the-pair', apply=lambda: self.pairs[i].add((s, t)))
            if (s, t) not in self.pairs[i]:
                return dict(outcome='UnrelateException', unchanged=True, clause='rejected-call-leaves-model-unchanged')
            return dict(outcome=None, unchanged=False, clause='unrelate-undoes-relate', apply=lambda: self.pairs[i].discard((s, t)))
        if k == 'delete':
            p = op[1]
            if not self.alive[p]:
                return dict(outcome='DeleteException', unchanged=True, clause='rejected-call-leaves-model-unchanged')

            def apply():
                self.alive[p] = False
                for ps in self.pairs:
                    for pr in [pr for pr in ps if p in pr]:
                        ps.discard(pr)
            return dict(outcome=None, unchanged=False, clause='delete-unlinks-only-the-instance', apply=apply)
        if k == 'new':
            return dict(outcome=None, unchanged=False, clause='new-leaves-links-unchanged', apply=lambda: None)
        raise ValueError('unknown operation %r' % (op,))

    # -- observation of the real model through the public interface ----------------------------------------------------
    def snapshot(self):
        shape = self.shape
        pools = {}
        for kind in shape.kinds():
            pools[kind] = sorted(self.label(i) for i in self.m.select_many(kind))
        fwd, bwd = [], []
        for a in shape.assocs:
            f, b = {}, {}
            for l in self.order:
                if self.kind[l] == a.src:
                    got = [self.label(i) for i in xtuml.navigate_many(self.inst[l]).nav(a.tgt, a.rel, a.sphrase)()]
                    if got:
                        f[l] = sorted(got)
                if self.kind[l] == a.tgt:
                    got = [self.label(i) for i in xtuml.navigate_many(self.inst[l]).nav(a.src, a.rel, a.tphrase)()]
                    if got:
                        b[l] = sorted(got)
            fwd.append(f)
            bwd.append(b)
        refs = {}
        for a in shape.assocs:
            for l in self.order:
                if self.kind[l] == a.src and self.alive[l]:
                    for rk in a.skeys:
                        refs['%s.%s' % (l, rk)] = getattr(self.inst[l], rk)
        return dict(pools=pools, fwd=fwd, bwd=bwd, refs=refs)

    def judge(self, snap, clause):
        """The state clauses of the property on one snapshot, then equality with the oracle under `clause`."""
        shape = self.shape
        for i, a in enumerate(shape.assocs):
            f = set((s, t) for s, ts in snap['fwd'][i].items() for t in ts)
            b = set((s, t) for t, ss in snap['bwd'][i].items() for s in ss)
            if f != b:
                raise Failure('symmetry', dict(association=i, source_to_target=sorted(f - b), target_to_source_only=sorted(b - f)),
                              'x reaches y exactly when y reaches x in the opposite direction')
            dead = sorted(set(l for pr in f | b for l in pr if not self.alive[l]))
            if dead:
                raise Failure('only-live-reachable', dict(association=i, deleted_but_linked=dead, links=sorted(f | b)),
                              'only live instances are reachable')
        for kind in shape.kinds():
            want = sorted(l for l in self.order if self.kind[l] == kind and self.alive[l])
            if snap['pools'][kind] != want:
                raise Failure('pool-holds-live-instances', dict(kind=kind, selected=snap['pools'][kind]), dict(selected=want))
        for i, a in enumerate(shape.assocs):
            f = set((s, t) for s, ts in snap['fwd'][i].items() for t in ts)
            if f != self.pairs[i]:
                raise Failure(clause, dict(association=i, links=sorted(f)), dict(links=sorted(self.pairs[i])))
        for i, a in enumerate(shape.assocs):
            for l in self.order:
                if self.kind[l] != a.src or not self.alive[l]:
                    continue
                partners = [t for (s, t) in self.pairs[i] if s == l]
                if len(partners) > 1:
                    continue
                for rk, ik in zip(a.skeys, a.tkeys):
                    if partners:
                        if shape.ids[self.kind[partners[0]]] != ik:
                            continue
                        want = self.idval[partners[0]]
                    else:
                        want = None
                    got = snap['refs']['%s.%s' % (l, rk)]
                    if got != want:
                        raise Failure('referential-attribute', dict(read='%s.%s' % (l, rk), value=got),
                                      dict(value=want, linked_to=partners))


def call(w, op):
    k = op[0]
    if k == 'relate':
        return xtuml.relate(w.inst[op[1]], w.inst[op[2]], op[3], op[4])
    if k == 'unrelate':
        return xtuml.unrelate(w.inst[op[1]], w.inst[op[2]], op[3], op[4])
    if k == 'delete':
        return xtuml.delete(w.inst[op[1]])
    if k == 'new':
        if w.added.get(op[1], 0) >= w.shape.extra_new:
            raise Skip()
        w.added[op[1]] = w.added.get(op[1], 0) + 1
        return w.new(op[1])


def step(w, op, judged):
    """One operation on the real model and on the oracle; with judged the clauses of the property are evaluated."""
    mentioned = op[1:3] if op[0] in ('relate', 'unrelate') else (op[1:2] if op[0] == 'delete' else [])
    for l in mentioned:
        if l not in w.inst:
            raise Skip()        # instance not created (yet) in this history
    exp = w.expect(op)
    before = w.snapshot() if (judged and exp['unchanged']) else None
    raised = None
    try:
        call(w, op)
    except Skip:
        raise
    except Exception as e:
        raised = e
    if 'apply' in exp and raised is None:
        exp['apply']()
    if not judged:
        return
    got = type(raised).__name__ if raised is not None else None
    if exp['outcome'] != 'any' and got != exp['outcome']:
        raise Failure('documented-exception', dict(op=op, outcome=_exc(raised) if raised is not None else 'no exception'),
                      dict(outcome=exp['outcome'] or 'no exception'))
    after = w.snapshot()
    if exp['unchanged']:
        if exp['clause'] == 'only-live-reachable':
            if raised is not None:
                exp = dict(exp, clause='rejected-call-leaves-model-unchanged')     # the call was rejected: it must not have changed anything
            else:
                w.judge(after, 'only-live-reachable')      # names the deleted instance that became reachable
        if after != before:
            diff = dict((k, dict(before=before[k], after=after[k])) for k in before if before[k] != after[k])
            raise Failure(exp['clause'], dict(op=op, outcome=_exc(raised) if raised is not None else 'no exception', changed=diff),
                          'the model is exactly as before the call')
    try:
        w.judge(after, exp['clause'])
    except Failure as f:
        if f.clause == 'only-live-reachable':
            # the bare clause name is kept for a relate that was handed a deleted instance (judged above); a deleted instance that
            # is (still) reachable after any other call is named after that call, so that the two are counted separately
            f.clause = 'only-live-reachable:after-%s' % op[0]
        raise


_PROGRESS = [0]


def _run_case(case, check_every_step=False):
    """None (passes), 'skip' or a Failure.  Only the last step is judged unless check_every_step."""
    ops = case['ops']
    n = len(ops)
    _PROGRESS[0] = -1
    try:
        w = World(SHAPES[case['shape']])
        if n == 0 or check_every_step:
            w.judge(w.snapshot(), 'initial-model-is-unlinked')
    except Failure as f:
        return f if (n == 0 or check_every_step) else None
    except Exception as e:
        return Failure('setup-completes', dict(raised=_exc(e)), 'schema and instances are created') if (n == 0 or check_every_step) else None
    for i, op in enumerate(ops):
        _PROGRESS[0] = i
        last = (i == n - 1) or check_every_step
        try:
            step(w, op, last)
        except Skip:
            return 'skip'
        except Failure as f:
            return f if last else None
        except Exception as e:
            return Failure('observation-completes', dict(op=op, raised=_exc(e)), 'navigation, selection and attribute reads work') if last else None
    return None


def _guarded(fn):
    def wrapper(case, check_every_step=False):
        if not _HANDLER:
            return fn(case, check_every_step)
        try:
            signal.setitimer(signal.ITIMER_VIRTUAL, CPU_LIMIT_S)
            try:
                return fn(case, check_every_step)
            finally:
                signal.setitimer(signal.ITIMER_VIRTUAL, 0)
        except _Timeout:
            if check_every_step or _PROGRESS[0] >= len(case['ops']) - 1:
                return Failure('bounded-time', dict(cpu_seconds='> %s' % CPU_LIMIT_S), 'every operation on <= 8 instances terminates')
            return None
    return wrapper


run_case = _guarded(_run_case)


def replay(item_name, input):
    f = run_long(input, True) if input.get('long') else run_case(input, True)
    if f is None or f == 'skip':
        return []
    return [dict(clause=f.clause, observed=f.observed, required=f.required)]


# ----------------------------------------------------------------------------------------------------------------------
# alphabets
# ----------------------------------------------------------------------------------------------------------------------
def _initial_labels(shape):
    count, out = {}, []
    for kind in shape.pool:
        count[kind] = count.get(kind, 0) + 1
        out.append(('%s%d' % (shape.prefix[kind], count[kind]), kind))
    return out


def alphabets(shape, extra=0):
    """(main, invalid): main = every relate/unrelate that addresses an association (both argument orders, every fitting
    phrase; the association id as int in one order and as 'R<n>' in the other), every delete, one new per class;
    invalid = calls that address no association (unknown id, wrong/missing phrase, kinds that are not associated).
    extra: the labels of that many instances per class made by 'new' operations take part as well."""
    labels = _initial_labels(shape)
    if extra:
        count = {}
        for _, k in labels:
            count[k] = count.get(k, 0) + 1
        for k in shape.kinds():
            for j in range(extra):
                labels.append(('%s%d' % (shape.prefix[k], count.get(k, 0) + 1 + j), k))
    kind = dict(labels)
    main, invalid = [], []
    phrases = sorted(set([a.sphrase for a in shape.assocs] + [a.tphrase for a in shape.assocs]))
    for verb in ('relate', 'unrelate'):
        for (p, kp), (q, kq) in itertools.product(labels, repeat=2):
            for ph in phrases:
                fits = False
                for a in shape.assocs:
                    if (a.src == kp and a.tgt == kq and a.sphrase == ph):
                        fits, rel = True, int(a.rel[1:])
                    elif (a.tgt == kp and a.src == kq and a.tphrase == ph):
                        fits, rel = True, a.rel
                if fits:
                    main.append([verb, p, q, rel, ph])
    for l, _ in labels:
        main.append(['delete', l])
    for k in shape.kinds():
        main.append(['new', k])
    # invalid calls: one representative pair per kind combination
    first = {}
    for l, k in labels:
        first.setdefault(k, l)
    src0, tgt0 = first[shape.assocs[0].src], first[shape.assocs[0].tgt]
    reflexive = shape.assocs[0].src == shape.assocs[0].tgt
    if reflexive:
        tgt0 = [l for l, k in labels if k == shape.assocs[0].tgt][1]
    ok_phrase = shape.assocs[0].sphrase
    for verb in ('relate', 'unrelate'):
        invalid.append([verb, src0, tgt0, 'R9', ok_phrase])
        invalid.append([verb, tgt0, src0, 9, shape.assocs[0].tphrase])
        invalid.append([verb, src0, tgt0, 'R1', 'no such phrase'])
        if ok_phrase != '':
            invalid.append([verb, src0, tgt0, 1, ''])                # phrase left out
        if not reflexive:
            other = [l for l, k in labels if k == kind[src0] and l != src0]
            invalid.append([verb, src0, other[0] if other else src0, 'R1', ok_phrase])     # two instances of the same class
            if shape.assocs[0].sphrase != shape.assocs[0].tphrase:
                invalid.append([verb, src0, tgt0, 'R1', shape.assocs[0].tphrase])          # phrase of the other direction
    def addresses(op):
        kp, kq, rel, ph = kind[op[1]], kind[op[2]], _norm_rel(op[3]), op[4]
        for a in shape.assocs:
            if a.rel == rel and ((a.src == kp and a.tgt == kq and a.sphrase == ph) or (a.tgt == kp and a.src == kq and a.tphrase == ph)):
                return True
        return False
    invalid = [op for op in invalid if not addresses(op)]
    return main, invalid


def _canonical(shape_prefixes, seq):
    """True when within each class the instances are first mentioned in label order (a2 never before a1, ...)."""
    seen = {}
    for op in seq:
        if op[0] in ('relate', 'unrelate'):
            ls = op[1:3]
        elif op[0] == 'delete':
            ls = op[1:2]
        else:
            continue
        for l in ls:
            pre = l.rstrip('0123456789')
            n = int(l[len(pre):])
            if n > seen.get(pre, 0) + 1:
                return False
            if n > seen.get(pre, 0):
                seen[pre] = n
    return True


def _plan(ctx):
    """[(shape name, depth, where invalid calls may stand ('nowhere'|'last'|'anywhere'), canonical only)]"""
    two = ['one-one-c', 'many-one', 'one-many', 'subsuper']
    rest2 = ['one-one', 'many-one-u']
    big = ['reflexive-one', 'reflexive-many', 'assoc-class', 'assoc-class-phrases']
    plan = []
    for name in two + rest2:
        plan.append((name, 3, 'anywhere' if (not ctx.quick or name in ('one-one-c', 'many-one')) else 'last', False))
    for name in big:
        plan.append((name, 3, 'last', False))
    if ctx.quick:
        plan.append(('many-one', 4, 'nowhere', True))
    else:
        for name in two + rest2:
            plan.append((name, 4, 'anywhere', False))
        for name in big:
            plan.append((name, 4, 'last', True))
        for name in two:
            plan.append((name, 5, 'nowhere', True))
    return plan


def _sequences(main, invalid, depth, where):
    """Index sequences of exactly `depth` over main+invalid; lower depths are produced by the plan entries / prefixes."""
    nm, ni = len(main), len(invalid)
    if depth == 0:
        yield ()
        return
    if where == 'anywhere':
        for idx in itertools.product(range(nm + ni), repeat=depth):
            yield idx
    elif where == 'last':
        for idx in itertools.product(range(nm), repeat=depth - 1):
            for j in range(nm + ni):
                yield idx + (j,)
    else:
        for idx in itertools.product(range(nm), repeat=depth):
            yield idx


_HISTORIES = dict(stands_in_for=['xtuml.meta.relate', 'xtuml.meta.unrelate', 'xtuml.meta.delete', 'xtuml.meta.MetaClass.delete', 'xtuml.meta._find_link',
                     'xtuml.meta.Link.connect', 'xtuml.meta.Link.disconnect', 'xtuml.meta.Link.navigate', 'xtuml.meta.Association.formalize'],
      bound='10 association shapes (1:1, 1C:1C, MC:1C, M:1, 1C:MC, reflexive 1C:1C and MC:1C with phrases, association class with two '
            'formalizations without and with phrases, two subtypes of one supertype); pools 2+2 (reflexive 3, association class 2+1+2); operations: '
            'every relate/unrelate that addresses an association (both argument orders, id as int and as string, every fitting phrase), every delete, '
            'one new per class (at most one extra instance per class), 8-10 calls addressing no association (unknown id, wrong/missing phrase, '
            'unassociated kinds).  quick: all histories of length<=3 on every shape (unknown-link calls anywhere on 1C:1C and MC:1C, as last call elsewhere), '
            'length 4 without unknown-link calls and up to renaming of instances within a class on MC:1C (deletes followed by further calls: item delete-scenarios); thorough: length<=4 on every shape (unknown-link calls anywhere on the two-class '
            'shapes; elsewhere as last call and up to renaming of instances within a class) and length 5 on 1C:1C, MC:1C, 1C:MC, subtype without unknown-link calls and up to renaming of instances within a class',
      weight=6)


@item('histories', shards=6, tiers=('quick',), **_HISTORIES)
@item('histories', shards=8, tiers=('thorough',), **_HISTORIES)
def histories(ctx):
    i = -1
    reported = {}
    timeouts = 0
    for name, depth, where, canonical in _plan(ctx):
        shape = SHAPES[name]
        main, invalid = alphabets(shape)
        allops = main + invalid
        depths = range(0, depth + 1) if depth == 3 else [depth]      # the length<=3 entries come first for every shape
        for d in depths:
            for idx in _sequences(main, invalid, d, where):
                i += 1
                if i % ctx.nshards != ctx.shard:
                    continue
                if (i // ctx.nshards) % 64 == 0 and ctx.expired():
                    ctx.exhausted = False
                    return
                ops = [allops[j] for j in idx]
                if canonical and not _canonical(shape.prefix, ops):
                    continue
                case = dict(shape=name, ops=ops)
                f = run_case(case, False)
                if f == 'skip':
                    continue
                ctx.case(key=None, nontrivial=len(ctx.keys) < KEY_CAP, sample=case if (d >= 3 and len(ctx.samples) < 2) else None)
                if f is None:
                    continue
                if ops and f.clause != 'bounded-time' and reported.get(f.clause, 0) < ctx.MAX_PER_CLAUSE:
                    if run_case(dict(case, ops=ops[:-1]), True) is not None:
                        continue        # the shorter history already fails: reported there
                reported[f.clause] = reported.get(f.clause, 0) + 1
                ctx.check(False, clause=f.clause, input=case, observed=f.observed, required=f.required)
                if f.clause == 'bounded-time':
                    timeouts += 1
                    if timeouts >= 3:
                        ctx.exhausted = False
                        ctx.note('enumeration stopped after 3 cases that ran into the CPU limit')
                        return
    ctx.exhausted = True
    if ctx.shard == 0:
        ctx.note('not checked (not stated by the property): order of instances within a navigation result; return values of relate/unrelate; '
                 'relate/unrelate with None; exclusivity of subtypes; referential attribute while an instance has several partners on that end; '
                 'which exception (if any) answers a relate with a deleted instance - only that the model stays unchanged')


# ----------------------------------------------------------------------------------------------------------------------
# delete scenarios: every link state, then delete (and delete again) of every instance, then further calls
# ----------------------------------------------------------------------------------------------------------------------
def _labels_of(op):
    return op[1:3] if op[0] in ('relate', 'unrelate') else (op[1:2] if op[0] == 'delete' else [])


def link_states(shape, max_relates):
    """Every link state that successful relate calls can build on the initial pool with at most max_relates calls (computed on
    the oracle alone), each with two histories that build it: one found breadth first in alphabet order and its twin in which
    every relate is written the other way round (other argument order, other phrase, id as string instead of int)."""
    w = World(shape)
    main, _ = alphabets(shape)
    relates = [op for op in main if op[0] == 'relate']
    twin = {}
    for op in relates:
        r = w.resolve(*op[1:])
        for other in relates:
            if other is not op and w.resolve(*other[1:]) == r:
                twin[tuple(op)] = other
    empty = tuple(frozenset() for _ in shape.assocs)
    seen = {empty: []}
    frontier = [empty]
    for _ in range(max_relates):
        nxt = []
        for st in frontier:
            for op in relates:
                w.pairs = [set(ps) for ps in st]
                exp = w.expect(op)
                if exp['clause'] != 'relate-links-the-pair':
                    continue
                exp['apply']()
                st2 = tuple(frozenset(ps) for ps in w.pairs)
                if st2 not in seen:
                    seen[st2] = seen[st] + [op]
                    nxt.append(st2)
        frontier = nxt
    out = []
    for st, path in seen.items():
        out.append((path, True))
        mirrored = [twin.get(tuple(op), op) for op in reversed(path)]
        w.pairs = [set() for _ in shape.assocs]
        ok = True
        for op in mirrored:       # the reversed order of calls must be acceptable as well (it is for every shape here)
            exp = w.expect(op)
            if exp['clause'] != 'relate-links-the-pair':
                ok = False
                break
            exp['apply']()
        if ok and mirrored != path and tuple(frozenset(ps) for ps in w.pairs) == st:
            out.append((mirrored, False))
    return out


def delete_scenarios(shape, max_relates, tail, quick):
    """Histories P + D + T: P builds a link state (link_states), D deletes one instance or two (every ordered pair, so also the
    same instance twice), T is every sequence of at most `tail` further calls over relate/unrelate/delete/new on the pool plus
    one instance per class made by a 'new' within T (labels of instances that do not exist yet are left out); calls addressing no
    association only as the last call.  Every prefix is enumerated, so only the last call of a history needs judging.
    Yields (length of T, history)."""
    labels = [l for l, _ in _initial_labels(shape)]
    main, invalid = alphabets(shape, extra=1)
    initial = set(labels)
    states = link_states(shape, max_relates)
    for path, first in states:
        for d in [[x] for x in labels] + [[x, y] for x in labels for y in labels]:
            head = path + [['delete', x] for x in d]
            yield 0, head
            if tail < 1:
                continue
            # a single delete gets the long tails (quick: delete of a linked instance, on the first of the two histories of a state of <= 2 links); after two deletes one further call
            linked = set(l for op in path for l in op[1:3])
            deep = tail if (len(d) == 1 and (not quick or (first and len(path) <= 2 and d[0] in linked))) else 1
            if quick and len(d) == 2 and (not first or d[0] != d[1]):
                continue        # quick: after two deletes a further call only when they were a repeated delete (first history of the state)

            def tails(prefix, made, depth):
                for op in main + (invalid if (depth == 0 or not quick) else []):
                    if op[0] == 'new':
                        if op[1] in made:
                            continue
                    elif any(l not in initial and l.rstrip('0123456789') not in [shape.prefix[k] for k in made] for l in _labels_of(op)):
                        continue
                    seq = prefix + [op]
                    yield seq
                    if depth + 1 < deep and op in main:
                        if quick and op[0] not in ('relate', 'new'):
                            continue        # quick: longer tails continue after relate / new calls only
                        for t in tails(seq, made + [op[1]] if op[0] == 'new' else made, depth + 1):
                            yield t
            for t in tails([], [], 0):
                yield len(t), head + t


_DELETE_SCENARIOS = dict(stands_in_for=['xtuml.meta.delete', 'xtuml.meta.MetaClass.delete', 'xtuml.meta.Link.disconnect', 'xtuml.meta.Link.navigate', 'xtuml.meta.relate',
                     'xtuml.meta.unrelate'],
      bound='on each of the 10 association shapes: every link state that <= 3 successful relate calls build on the pool, built in two ways '
            '(argument order / phrase / id spelling mirrored); then delete of every instance, or of every ordered pair of instances (also the same one '
            'twice: repeated delete); then every sequence of <= 2 further calls (after two deletes: 1; quick: only after a repeated delete) over relate/unrelate (both argument orders, every '
            'phrase)/delete/new, the instance made by a new taking part, calls addressing no association as last call (quick: a second further call only '
            'after a relate or new that follow the delete of a linked instance, on one of the two ways of building a state of <= 2 links); navigation in both directions from every instance (deleted ones too), pools and referential attributes '
            'judged after the last call of every history',
      weight=6)


@item('delete-scenarios', shards=8, tiers=('quick',), **_DELETE_SCENARIOS)
@item('delete-scenarios', shards=6, tiers=('thorough',), **_DELETE_SCENARIOS)
def delete_scenarios_item(ctx):
    i = -1
    reported = set()
    timeouts = 0
    # breadth first: the histories with at most one further call on every shape, then the ones with two
    for name, want in [(n, (0, 1)) for n in sorted(SHAPES)] + [(n, (2,)) for n in sorted(SHAPES)]:
        shape = SHAPES[name]
        for tlen, ops in delete_scenarios(shape, 3, 2, ctx.quick):
            if tlen not in want:
                continue
            i += 1
            if i % ctx.nshards != ctx.shard:
                continue
            if (i // ctx.nshards) % 64 == 0 and ctx.expired():
                ctx.exhausted = False
                return
            case = dict(shape=name, ops=ops)
            f = run_case(case, False)
            if f == 'skip':
                continue
            ctx.case(key=None, nontrivial=len(ctx.keys) < KEY_CAP, sample=case if len(ctx.samples) < 2 and len(ops) >= 4 else None)
            if f is None:
                continue
            if f.clause != 'bounded-time':
                # the shortest prefix that fails when every call is judged is what gets reported (once)
                g = run_case(case, True)
                if g is not None and g != 'skip' and g.clause != 'bounded-time':
                    case, f = dict(case, ops=ops[:_PROGRESS[0] + 1]), g
                key = (f.clause, repr(case['ops']))
                if key in reported:
                    continue
                reported.add(key)
            ctx.check(False, clause=f.clause, input=case, observed=f.observed, required=f.required)
            if f.clause == 'bounded-time':
                timeouts += 1
                if timeouts >= 3:
                    ctx.exhausted = False
                    ctx.note('enumeration stopped after 3 cases that ran into the CPU limit')
                    return
    ctx.exhausted = True


# ----------------------------------------------------------------------------------------------------------------------
# random long histories (pools grow by 'new' and the new instances take part)
# ----------------------------------------------------------------------------------------------------------------------
def _random_history(rng, shape, length):
    """Operations over labels that exist at that point of the history (up to 3 more instances per class).  The generator keeps
    its own list of the labels it has deleted: calls use instances that are still there, 1.5% of them name a deleted one."""
    count = {}
    labels = []
    for kind in shape.pool:
        count[kind] = count.get(kind, 0) + 1
        labels.append(('%s%d' % (shape.prefix[kind], count[kind]), kind))
    added = {}
    gone = set()
    phrases = sorted(set([a.sphrase for a in shape.assocs] + [a.tphrase for a in shape.assocs]))

    def pick(kind=None):
        cands = [l for l, k in labels if kind is None or k == kind]
        live = [l for l in cands if l not in gone]
        return rng.choice(live or cands)
    ops = []
    for _ in range(length):
        r = rng.random()
        if r < 0.10:
            kind = rng.choice(shape.kinds())
            if added.get(kind, 0) < 3:
                added[kind] = added.get(kind, 0) + 1
                count[kind] = count.get(kind, 0) + 1
                labels.append(('%s%d' % (shape.prefix[kind], count[kind]), kind))
                ops.append(['new', kind])
                continue
        if r < 0.17:
            l = rng.choice(sorted(gone)) if (gone and rng.random() < 0.15) else pick()       # 15%: a repeated delete
            gone.add(l)
            ops.append(['delete', l])
            continue
        verb = 'relate' if r < 0.68 else 'unrelate'
        a = rng.choice(shape.assocs)
        short = [k for k in (a.src, a.tgt) if not [l for l, kk in labels if kk == k and l not in gone]]
        if short and added.get(short[0], 0) < 3:
            # nothing of that class is left: make a new instance instead
            kind = short[0]
            added[kind] = added.get(kind, 0) + 1
            count[kind] = count.get(kind, 0) + 1
            labels.append(('%s%d' % (shape.prefix[kind], count[kind]), kind))
            ops.append(['new', kind])
            continue
        if short:
            continue        # nothing left to relate on that association
        src = pick(a.src)
        tgt = pick(a.tgt)
        rel = rng.choice([a.rel, int(a.rel[1:])])
        if rng.random() < 0.5:
            op = [verb, src, tgt, rel, a.sphrase]
        else:
            op = [verb, tgt, src, rel, a.tphrase]
        x = rng.random()
        if x < 0.04:
            op[3] = rng.choice(['R9', 0, 'R11'])
        elif x < 0.08:
            op[4] = rng.choice([p for p in phrases + ['zz'] if p != op[4]] or ['zz'])
        elif x < 0.10:
            op[2] = pick()
        elif x < 0.115 and gone:
            dead = sorted(gone)
            j = rng.choice((1, 2))
            same = [l for l in dead if l.rstrip('0123456789') == op[j].rstrip('0123456789')]
            op[j] = rng.choice(same or dead)
        ops.append(op)
    return ops


def _run_long(case):
    """Every step judged.  Returns (failure or None, index of the failing step)."""
    try:
        w = World(SHAPES[case['shape']])
        w.shape = Shape(w.shape.name, w.shape.classes, w.shape.ids, w.shape.assocs, w.shape.pool, w.shape.prefix, extra_new=3)
        w.judge(w.snapshot(), 'initial-model-is-unlinked')
    except Failure as f:
        return f, -1
    for i, op in enumerate(case['ops']):
        _PROGRESS[0] = i
        try:
            step(w, op, True)
        except Skip:
            continue
        except Failure as f:
            return f, i
        except Exception as e:
            return Failure('observation-completes', dict(op=op, raised=_exc(e)), 'navigation, selection and attribute reads work'), i
    return None, -1


def _replay_long(case):
    f, _ = _run_long(case)
    return f


run_long = _guarded(lambda case, _every=True: _replay_long(case))


def _shrink(case, clause, seconds=3.0):
    import time
    stop = time.time() + seconds
    ops = list(case['ops'])
    changed = True
    while changed:
        changed = False
        for i in range(len(ops) - 2, -1, -1):
            if time.time() > stop:
                return dict(case, ops=ops)
            if ops[i][0] == 'new':
                continue            # labels of later instances depend on it
            cand = dict(case, ops=ops[:i] + ops[i + 1:])
            f = _replay_long(cand)
            if f is not None and f.clause == clause:
                ops = cand['ops']
                changed = True
    return dict(case, ops=ops)


@item('random-long', stands_in_for=['xtuml.meta.relate', 'xtuml.meta.unrelate', 'xtuml.meta.delete', 'xtuml.meta.MetaClass.delete'],
      bound='random histories of <= 60 operations on every shape: 10% new (up to 3 more instances per class, they take part), 7% delete, relate/unrelate '
            'in both argument orders mostly on instances not deleted before (1.5% of the calls name a deleted one), 10% of the calls address no association; every step judged; '
            'after a violation the history is continued without the violating call (at most 4 times); quick 400 histories per shard, thorough until the '
            'time share ends (<= 5000 per shard)',
      shards=2, weight=1)
def random_long(ctx):
    names = sorted(SHAPES)
    n = 400 if ctx.quick else 5000
    done = failures = 0
    stop = False
    for k in range(n):
        if ctx.expired() or stop:
            break
        shape = SHAPES[names[(k * ctx.nshards + ctx.shard) % len(names)]]
        case = dict(shape=shape.name, long=True, ops=_random_history(ctx.rng, shape, 60))
        ctx.case(key=None, nontrivial=True, sample=dict(case, ops=case['ops'][:5]) if k == 0 else None)
        done += 1
        for attempt in range(5):
            if _HANDLER:
                signal.setitimer(signal.ITIMER_VIRTUAL, 20.0)
            try:
                f, at = _run_long(case)
                if f is not None:
                    small, f2 = dict(case, ops=case['ops'][:at + 1]), f
                    if ctx._per_clause.get(f.clause, 0) < ctx.MAX_PER_CLAUSE:      # beyond that, repeats are only counted
                        small = _shrink(small, f.clause)
                        f2 = _replay_long(small)
                        if f2 is None:
                            small, f2 = dict(case, ops=case['ops'][:at + 1]), f
            except _Timeout:
                ctx.check(False, clause='bounded-time', input=case, observed='> 20 CPU s', required='terminates')
                stop = True
                break
            finally:
                if _HANDLER:
                    signal.setitimer(signal.ITIMER_VIRTUAL, 0)
            if f is None:
                break
            ctx.check(False, clause=f2.clause, input=small, observed=f2.observed, required=f2.required)
            failures += 1
            if at < 0 or failures >= 3000:
                stop = failures >= 3000
                break
            # go on with the same history without the call that violated the property
            case = dict(case, ops=case['ops'][:at] + case['ops'][at + 1:])
        if stop and failures >= 3000:
            ctx.note('sampling stopped after 3000 violations')
    ctx.exhausted = None
    ctx.note('random sampling (seeded): %d histories in this shard' % done)
