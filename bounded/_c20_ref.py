"""C20: independent walk of the model rows -> what the XSD of a component must declare, reader of the generated XSD, and
the row edits specific to C20 (add attribute, enumerators, user types, move classes between components).

Expected declaration (JSON-able):
  types    sorted list of [name, kind, base, [enumerators in modeled (R56) order]]
             kind 'core': base = xs:boolean | xs:integer | xs:decimal | xs:string | xs:integer   (boolean, integer, real, string, unique_id)
             kind 'enum': base not compared
             kind 'user': base = name of the base data type
           for every supported data type that is global (outside every component) or contained in the component
  component name of the component element
  classes  {key letters: sorted [[attribute name, type name], ...]} for every class contained in the component; one
           attribute per non-derived attribute of a supported type, typed by the name of the base data type (user types
           unwrapped through every layer; referential attributes: of the referred base attribute)
  unclear  names of data types for which the property does not say whether a simple type is declared (not compared):
           user types layered on a user type whose innermost base is not a supported type, and types that live in a
           component enclosing the generated one without being contained in it
"""
import xml.etree.ElementTree as ET

from . import _c14_rows as R
from ._c14_ref import Walk
from ._c14_rows import NULL

XS = '{http://www.w3.org/2001/XMLSchema}'
CORE_XS = {1: 'xs:boolean', 2: 'xs:integer', 3: 'xs:decimal', 4: 'xs:string', 5: 'xs:integer'}


class XWalk(Walk):
    def supported(self, dt_id):
        """core types boolean..unique_id, enumerations, user types."""
        if dt_id in self.cdt:
            return self.cdt[dt_id]['Core_Typ'] in CORE_XS
        return dt_id in self.edt or dt_id in self.udt

    def base_type(self, dt_id):
        seen = set()
        while dt_id in self.udt and dt_id not in seen:
            seen.add(dt_id)
            dt_id = self.udt[dt_id]['CDT_DT_ID']
        return dt_id

    def enumerators(self, dt_id):
        es = [d for d in self.t['S_ENUM'] if d['EDT_DT_ID'] == dt_id]
        ids = set(d['Enum_ID'] for d in es)
        nxt = dict((d['Previous_Enum_ID'], d) for d in es if d['Previous_Enum_ID'] in ids)
        first = [d for d in es if d['Previous_Enum_ID'] not in ids]
        out, cur = [], first[0] if first else None
        while cur is not None and len(out) <= len(es):
            out.append(cur['Name'])
            cur = nxt.get(cur['Enum_ID'])
        return out

    def expected(self, comp_name):
        comp_id = self.component_id(comp_name)
        if comp_id is None:
            return None
        types = []
        for d in self.t['S_DT']:
            i = d['DT_ID']
            if not (self.is_global(i) or comp_id in self.containers(i)):
                continue
            if i in self.cdt:
                if self.cdt[i]['Core_Typ'] in CORE_XS:
                    types.append([d['Name'], 'core', CORE_XS[self.cdt[i]['Core_Typ']], []])
            elif i in self.edt:
                types.append([d['Name'], 'enum', None, self.enumerators(i)])
            elif i in self.udt:
                b = self.udt[i]['CDT_DT_ID']
                if b in self.dt and self.supported(b):
                    types.append([d['Name'], 'user', self.dt[b]['Name'], []])
        unclear = []
        for d in self.t['S_DT']:
            i = d['DT_ID']
            if i in self.udt and self.udt[i]['CDT_DT_ID'] in self.udt:
                b = self.base_type(i)
                if not ((b in self.cdt and self.cdt[b]['Core_Typ'] in CORE_XS) or b in self.edt):
                    unclear.append(d['Name'])
            cs = self.containers(i)
            if comp_id not in cs and any(c in self.comp and c in self.containers(comp_id) for c in cs):
                unclear.append(d['Name'])
        classes = {}
        for o in self.t['O_OBJ']:
            if comp_id not in self.containers(o['Obj_ID']):
                continue
            attrs = []
            for a in self.t['O_ATTR']:
                if a['Obj_ID'] != o['Obj_ID']:
                    continue
                key = (a['Attr_ID'], a['Obj_ID'])
                if key in self.dbattr:
                    continue
                b = self.attr.get(self.base_attr(key))
                if b is None:
                    continue
                dt = self.base_type(b['DT_ID'])
                ok = (dt in self.cdt and self.cdt[dt]['Core_Typ'] in CORE_XS) or dt in self.edt
                if ok and dt in self.dt:
                    attrs.append([a['Name'], self.dt[dt]['Name']])
            classes.setdefault(o['Key_Lett'], []).extend(attrs)
        for k in classes:
            classes[k].sort()
        return dict(types=sorted((t for t in types if t[0] not in unclear), key=lambda t: (t[0], t[1], str(t[2]), t[3])),
                    component=comp_name, classes=classes, unclear=sorted(set(unclear)),
                    class_count=len([o for o in self.t['O_OBJ'] if comp_id in self.containers(o['Obj_ID'])]))


def read_xsd(text):
    """-> (declaration dict in the shape of XWalk.expected, list of unexpected things)."""
    root = ET.fromstring(text)
    odd = []
    if root.tag != XS + 'schema':
        odd.append('root is %s' % root.tag)
    types, comps = [], []
    for ch in root:
        if ch.tag == XS + 'simpleType':
            rs = list(ch)
            if len(rs) != 1 or rs[0].tag != XS + 'restriction':
                odd.append('simpleType %s without a single restriction' % ch.get('name'))
                continue
            r = rs[0]
            enums = []
            for e in r:
                if e.tag == XS + 'enumeration':
                    enums.append(e.get('value'))
                else:
                    odd.append('restriction of %s contains %s' % (ch.get('name'), e.tag))
            base = r.get('base')
            kind = 'core' if (base or '').startswith('xs:') and not enums else ('enum' if enums else 'user')
            types.append([ch.get('name'), kind, base, enums])
        elif ch.tag == XS + 'element':
            comps.append(ch)
        else:
            odd.append('top level %s' % ch.tag)
    classes, count, name = {}, 0, None
    if len(comps) != 1:
        odd.append('%d top level elements' % len(comps))
    for comp in comps:
        name = comp.get('name')
        for cls in comp.findall('%scomplexType/%ssequence/%selement' % (XS, XS, XS)):
            count += 1
            attrs = [[a.get('name'), a.get('type')] for a in cls.findall('%scomplexType/%sattribute' % (XS, XS))]
            n_all = len(list(cls.iter(XS + 'attribute')))
            if n_all != len(attrs):
                odd.append('class %s has attributes outside complexType' % cls.get('name'))
            classes.setdefault(cls.get('name'), []).extend(attrs)
        n_el = len(list(comp.iter(XS + 'element'))) - 1
        if n_el != len(comp.findall('%scomplexType/%ssequence/%selement' % (XS, XS, XS))):
            odd.append('component %s has elements outside complexType/sequence' % name)
    for k in classes:
        classes[k].sort()
    return dict(types=sorted(types, key=lambda t: (t[0], t[1], str(t[2]), t[3])), component=name, classes=classes, class_count=count), odd


def without(d, names):
    """The declarations without the simple types of the given names."""
    return dict(d, types=[t for t in d['types'] if t[0] not in names]) if names else d


def compare(obs, ref, out):
    obs = without(obs, ref.get('unclear'))

    def norm(types):
        # an enumeration without enumerators reads back as a plain restriction: compare enumerations by name + enumerators only
        return sorted([t[0], t[3]] if (t[1] == 'enum' or t[3]) else [t[0], t[2]] for t in types)
    on, rn = sorted(t[0] for t in obs['types']), sorted(t[0] for t in ref['types'])
    ref_enums = set(t[0] for t in ref['types'] if t[1] == 'enum')
    if on != rn:
        out.append(dict(clause='type-set', observed=[n for n in on if n not in rn] + ['dup:' + n for n in set(on) if on.count(n) > 1],
                        required=[n for n in rn if n not in on]))
    else:
        eo = sorted([t[0], t[3]] for t in obs['types'] if t[0] in ref_enums)
        er = sorted([t[0], t[3]] for t in ref['types'] if t[0] in ref_enums)
        if eo != er:
            out.append(dict(clause='enumerators', observed=[x for x in eo if x not in er], required=[x for x in er if x not in eo]))
        bo = sorted([t[0], t[2]] for t in obs['types'] if t[0] not in ref_enums)
        br = sorted([t[0], t[2]] for t in ref['types'] if t[0] not in ref_enums)
        if bo != br:
            out.append(dict(clause='type-base', observed=[x for x in bo if x not in br], required=[x for x in br if x not in bo]))
    if obs['component'] != ref['component']:
        out.append(dict(clause='component-element', observed=obs['component'], required=ref['component']))
    if sorted(obs['classes']) != sorted(ref['classes']) or obs['class_count'] != ref['class_count']:
        out.append(dict(clause='class-elements', observed=[sorted(obs['classes']), obs['class_count']],
                        required=[sorted(ref['classes']), ref['class_count']]))
    else:
        bad = [k for k in ref['classes'] if obs['classes'][k] != ref['classes'][k]]
        if bad:
            out.append(dict(clause='class-attributes', observed=dict((k, obs['classes'][k]) for k in bad),
                            required=dict((k, ref['classes'][k]) for k in bad)))


def diff(a, b):
    out = []
    ta, tb = [t for t in a['types'] if t not in b['types']], [t for t in b['types'] if t not in a['types']]
    if ta or tb:
        out.append(['types', ta, tb])
    for k in sorted(set(a['classes']) | set(b['classes'])):
        if a['classes'].get(k) != b['classes'].get(k):
            out.append(['class ' + k, a['classes'].get(k), b['classes'].get(k)])
    if a['component'] != b['component']:
        out.append(['component', a['component'], b['component']])
    return out


def strip_enum_base(d):
    """The base of an enumeration's restriction is not part of the property: blank it on both sides before diffing."""
    return dict(d, types=[[t[0], 'enum' if t[3] else t[1], None if t[3] else t[2], t[3]] for t in d['types']])


# ------------------------------------------------------------------ edits ---------------------------------------------------------
def _class_row(rows, kl):
    for r in rows:
        if r.kind == 'O_OBJ' and r.get('Key_Lett') == kl:
            return r
    raise KeyError(kl)


def edit_add_attr(rows, kl, name, type_name):
    """Appends a base attribute at the end of the modeled order."""
    obj = _class_row(rows, kl).get('Obj_ID')
    order = R.attr_order(rows, kl) if R._attr_rows(rows, kl) else []
    last = NULL
    if order:
        last = [r for r in R._attr_rows(rows, kl) if r.get('Name') == order[-1]][0].get('Attr_ID')
    a = R.new_guid(rows, 'attr/%s/%s' % (kl, name))
    g = R.enc_guid
    rows.append(R.Row('O_NBATTR', [g(a), g(obj)]))
    rows.append(R.Row('O_BATTR', [g(a), g(obj)]))
    rows.append(R.Row('O_ATTR', [g(a), g(obj), g(last), R.encode(name), "''", "''", R.encode(name), '0', g(R.type_id(rows, type_name)), "''", "''"]))


def _container_of(rows, elem_id):
    for r in rows:
        if r.kind == 'PE_PE' and r.get('Element_ID') == elem_id:
            return r
    return R.Row('PE_PE', [R.enc_guid(elem_id), '1', R.enc_guid(NULL), R.enc_guid(NULL), '7'])     # top level element without PE_PE row


def _home(rows, where):
    """where: None -> the package holding the first global user/enum type or a fresh top package; else a component name ->
    its first directly contained package (or the component itself).  Returns (Package_ID, Component_ID)."""
    if where is None:
        for r in rows:
            if r.kind == 'EP_PKG':
                pe = _container_of(rows, r.get('Package_ID'))
                if pe.get('Package_ID') == NULL and pe.get('Component_ID') == NULL:
                    return r.get('Package_ID'), NULL
        p = R.new_guid(rows, 'toppkg')
        g = R.enc_guid
        rows.append(R.Row('PE_PE', [g(p), '1', g(NULL), g(NULL), '7']))
        rows.append(R.Row('EP_PKG', [g(p), g(NULL), g(NULL), "'AddedTop'", "''", '0']))
        return p, NULL
    comp = [r for r in rows if r.kind == 'C_C' and r.get('Name') == where][0].get('Id')
    for r in rows:
        if r.kind == 'EP_PKG' and _container_of(rows, r.get('Package_ID')).get('Component_ID') == comp:
            return r.get('Package_ID'), NULL
    return NULL, comp


def _add_dt(rows, name, where):
    pkg, comp = _home(rows, where)
    i = R.new_guid(rows, 'dt/%s' % name)
    g = R.enc_guid
    rows.append(R.Row('PE_PE', [g(i), '1', g(pkg), g(comp), '3']))
    rows.append(R.Row('S_DT', [g(i), g(NULL), R.encode(name), "''", "''"]))
    return i


def edit_add_udt(rows, name, base, where):
    b = R.type_id(rows, base)
    i = _add_dt(rows, name, where)
    rows.append(R.Row('S_UDT', [R.enc_guid(i), R.enc_guid(b), '0', "''"]))


def edit_add_enum(rows, name, enumerators, where):
    i = _add_dt(rows, name, where)
    rows.append(R.Row('S_EDT', [R.enc_guid(i)]))
    for e in enumerators:
        edit_add_enumerator(rows, name, e)


def _enum_rows(rows, enum_name):
    dt = R.type_id(rows, enum_name)
    return dt, [r for r in rows if r.kind == 'S_ENUM' and r.get('EDT_DT_ID') == dt]


def enum_order(rows, enum_name):
    dt, es = _enum_rows(rows, enum_name)
    ids = set(r.get('Enum_ID') for r in es)
    nxt = dict((r.get('Previous_Enum_ID'), r) for r in es if r.get('Previous_Enum_ID') in ids)
    cur = [r for r in es if r.get('Previous_Enum_ID') not in ids]
    out, cur = [], cur[0] if cur else None
    while cur is not None:
        out.append(cur)
        cur = nxt.get(cur.get('Enum_ID'))
    return out


def edit_add_enumerator(rows, enum_name, name, position=None):
    """position None: at the end of the modeled order; 0: in front (the row is always appended at the end of the file)."""
    dt = R.type_id(rows, enum_name)
    order = enum_order(rows, enum_name)
    e = R.new_guid(rows, 'enum/%s/%s' % (enum_name, name))
    g = R.enc_guid
    if position is None or position >= len(order):
        prev = order[-1].get('Enum_ID') if order else NULL
    else:
        prev = order[position - 1].get('Enum_ID') if position > 0 else NULL
        order[position].set('Previous_Enum_ID', e, guid=True)
    rows.append(R.Row('S_ENUM', [g(e), R.encode(name), "''", g(dt), g(prev)]))


def edit_reorder_enumerators(rows, enum_name, names):
    by = dict((r.get('Name'), r) for r in _enum_rows(rows, enum_name)[1])
    assert sorted(by) == sorted(names)
    prev = NULL
    for n in names:
        by[n].set('Previous_Enum_ID', prev, guid=True)
        prev = by[n].get('Enum_ID')


def edit_move_class(rows, kl, where):
    pkg, comp = _home(rows, where)
    pe = _container_of(rows, _class_row(rows, kl).get('Obj_ID'))
    pe.set('Package_ID', pkg, guid=True)
    pe.set('Component_ID', comp, guid=True)


def edit_move_type(rows, name, where):
    """A user / enumeration data type of the model goes to the home of `where` (see _home)."""
    pkg, comp = _home(rows, where)
    pe = _container_of(rows, R.type_id(rows, name))
    pe.set('Package_ID', pkg, guid=True)
    pe.set('Component_ID', comp, guid=True)


def package_names(rows):
    return [r.get('Name') for r in rows if r.kind == 'EP_PKG']


def can_move_package(rows, name, where):
    """Moving the package directly under component `where` (None: to the top level) creates no containment cycle and is a move."""
    w = XWalk(rows)
    pkg = [r for r in rows if r.kind == 'EP_PKG' and r.get('Name') == name][0].get('Package_ID')
    if pkg not in w.pe:
        return False
    pe = w.pe[pkg]
    if where is None:
        return not (pe['Package_ID'] == NULL and pe['Component_ID'] == NULL)
    comp = w.component_id(where)
    return pkg not in w.containers(comp) and pe['Component_ID'] != comp


def edit_move_package(rows, name, where):
    """The package (with everything in it) goes directly under component `where`; None: to the top level."""
    assert can_move_package(rows, name, where), (name, where)
    pkg = [r for r in rows if r.kind == 'EP_PKG' and r.get('Name') == name][0].get('Package_ID')
    comp = NULL if where is None else [r for r in rows if r.kind == 'C_C' and r.get('Name') == where][0].get('Id')
    pe = _container_of(rows, pkg)
    pe.set('Package_ID', NULL, guid=True)
    pe.set('Component_ID', comp, guid=True)
