"""Independent reference evaluator for the OAL subset of C04 / C08 / C15 over a plain relational model.

Nothing here imports pyxtuml.  Programs are *our own* trees (nested lists, JSON-able), printed to OAL text for the real
interpreter by `render(...)` and evaluated here by `Machine` according to the language rules named in the property
texts:

  expressions   ['int', n>=0] ['str', s] ['bool', b] ['var', name] ['selected'] ['self'] ['param', name]
                ['attr', handle-expr, name] ['un', op, e] ['bin', op, l, r] ['enum', type, enumerator] ['const', name]
                ['fcall', function, args] ['ccall', class, operation, args] ['icall', handle-expr, operation, args]
                ['bcall', external entity, bridge, args]            args = [[parameter name, expr], ...]
  statements    ['assign', lhs, e] ['if', cond, block, [[cond, block], ...], else-block|None] ['while', cond, block]
                ['for', var, set-var, block] ['break'] ['continue'] ['return', e|None] ['stop']
                ['create', var|None, class] ['delete', var] ['relate', v1, v2, rel, phrase|None, using|None]
                ['unrelate', v1, v2, rel, phrase|None, using|None] ['selfrom', any|many, var, class, where|None]
                ['selrel', one|any|many, var, start-expr, [[class, rel, phrase|None], ...], where|None]
                ['call', call-expr]

The relational model: `World.extent[class]` is the list of live rows (dicts with identity) in creation order;
`World.links[rel]` is the list of related pairs (triples for an association class) in the order they were related.

Rules taken from the library-wide statements C09/C02 where the language leaves a choice (noted by the callers):
`select any/one` takes the first instance in creation order / relate order, `for each` iterates in that order.

A program that is not error-free in the sense of the property (empty or deleted handle used, multiplicity exceeded,
unrelate of an unrelated pair, delete of an instance that still has links, read of an unset referential attribute,
division by zero, integer beyond 32 bits, string beyond 256 characters, step / invocation budget exceeded, variable read
outside its block ...) raises `OutOfDomain`: the
callers skip it.  The same holds for a side effect (create, delete, relate, unrelate, attribute write) performed while a
where clause or an operand of and/or is being evaluated: how often those are evaluated is not fixed by the property.
"""

KEYWORDS = ('select any many one from instances of related by where if elif else end while for each in break continue '
            'return create object instance delete relate unrelate to across using not empty not_empty cardinality true '
            'false and or assign control stop self selected param transform bridge then loop').split()


class OutOfDomain(Exception):
    """The program is not type-correct / error-free / bounded: outside the property."""


# ================================================================================================= printing
class K(str):
    """A keyword occurrence in printed OAL (the case of these may be varied by C08)."""


def _args(args):
    out = []
    for i, (name, e) in enumerate(args):
        if i:
            out.append(', ')
        out += [name, ': '] + _expr(e)
    return out


def _expr(e):
    t = e[0]
    if t == 'int':
        return [str(e[1])]
    if t == 'str':
        return ['"%s"' % e[1]]
    if t == 'bool':
        return [K('true' if e[1] else 'false')]
    if t == 'var':
        return [e[1]]
    if t == 'selected':
        return [K('selected')]
    if t == 'self':
        return [K('self')]
    if t == 'param':
        return [K('param'), '.', e[1]]
    if t == 'attr':
        return _expr(e[1]) + ['.', e[2]]
    if t == 'un':
        op = [K(e[1])] if e[1].isalpha() or '_' in e[1] else [e[1]]
        return ['('] + op + [' '] + _expr(e[2]) + [')']
    if t == 'bin':
        op = [K(e[1])] if e[1].isalpha() else [e[1]]
        return ['('] + _expr(e[2]) + [' '] + op + [' '] + _expr(e[3]) + [')']
    if t == 'enum':
        return [e[1], '::', e[2]]
    if t == 'const':
        return [e[1]]
    if t == 'fcall':
        return ['::', e[1], '('] + _args(e[2]) + [')']
    if t == 'ccall':
        return [e[1], '::', e[2], '('] + _args(e[3]) + [')']
    if t == 'icall':
        return _expr(e[1]) + ['.', e[2], '('] + _args(e[3]) + [')']
    if t == 'bcall':
        return [e[1], '::', e[2], '('] + _args(e[3]) + [')']
    raise ValueError('unknown expression %r' % (e,))


def _kw(words):
    out = []
    for w in words.split():
        out += [K(w), ' ']
    return out


def _rel(rel, phrase):
    return [rel] + (['.', "'%s'" % phrase] if phrase else [])


def _var(name):
    return [K('self')] if name == 'self' else [name]


def _stmt(s, ind, style):
    pad = ['  ' * ind]
    t = s[0]
    if t == 'assign':
        pre = []
        if style.get('verbose'):
            pre = _kw(dict(ccall='transform', icall='transform', bcall='bridge', fcall='').get(s[2][0], 'assign'))
        return pad + pre + _expr(s[1]) + [' = '] + _expr(s[2]) + [';\n']
    if t == 'if':
        out = pad + _kw('if') + ['('] + _expr(s[1]) + [')'] + ([' ', K('then')] if style.get('verbose') else []) + ['\n']
        out += _block(s[2], ind + 1, style)
        for cond, blk in s[3]:
            out += pad + _kw('elif') + ['('] + _expr(cond) + [')'] + ([' ', K('then')] if style.get('verbose') else []) + ['\n']
            out += _block(blk, ind + 1, style)
        if s[4] is not None:
            out += pad + [K('else'), '\n'] + _block(s[4], ind + 1, style)
        return out + pad + [K('end'), ' ', K('if'), ';\n']
    if t == 'while':
        return (pad + _kw('while') + ['('] + _expr(s[1]) + [')'] + ([' ', K('loop')] if style.get('verbose') else []) + ['\n'] +
                _block(s[2], ind + 1, style) + pad + [K('end'), ' ', K('while'), ';\n'])
    if t == 'for':
        return (pad + _kw('for each') + [s[1], ' ', K('in'), ' ', s[2]] + ([' ', K('loop')] if style.get('verbose') else []) +
                ['\n'] + _block(s[3], ind + 1, style) + pad + [K('end'), ' ', K('for'), ';\n'])
    if t == 'break':
        return pad + [K('break'), ';\n']
    if t == 'continue':
        return pad + [K('continue'), ';\n']
    if t == 'return':
        return pad + [K('return')] + ([' '] + _expr(s[1]) if s[1] is not None else []) + [';\n']
    if t == 'stop':
        return pad + [K('control'), ' ', K('stop'), ';\n']
    if t == 'create':
        return pad + _kw('create object instance') + ([s[1], ' '] if s[1] else []) + [K('of'), ' ', s[2], ';\n']
    if t == 'delete':
        return pad + _kw('delete object instance') + _var(s[1]) + [';\n']
    if t in ('relate', 'unrelate'):
        return (pad + [K(t), ' '] + _var(s[1]) + [' ', K('to' if t == 'relate' else 'from'), ' '] + _var(s[2]) + [' ', K('across'), ' '] +
                _rel(s[3], s[4]) + ([' ', K('using'), ' '] + _var(s[5]) if s[5] else []) + [';\n'])
    if t == 'selfrom':
        return (pad + [K('select'), ' ', K(s[1]), ' ', s[2], ' '] + _kw('from instances of') + [s[3]] +
                ([' ', K('where'), ' ('] + _expr(s[4]) + [')'] if s[4] is not None else []) + [';\n'])
    if t == 'selrel':
        out = pad + [K('select'), ' ', K(s[1]), ' ', s[2], ' '] + _kw('related by') + _expr(s[3])
        for cls, rel, phrase in s[4]:
            out += ['->', cls, '['] + _rel(rel, phrase) + [']']
        return out + ([' ', K('where'), ' ('] + _expr(s[5]) + [')'] if s[5] is not None else []) + [';\n']
    if t == 'call':
        pre = []
        if style.get('verbose') and s[1][0] in ('ccall', 'icall'):
            pre = _kw('transform')
        elif style.get('verbose') and s[1][0] == 'bcall':
            pre = _kw('bridge')
        return pad + pre + _expr(s[1]) + [';\n']
    raise ValueError('unknown statement %r' % (s,))


def _block(block, ind, style):
    out = []
    for s in block:
        out += _stmt(s, ind, style)
    return out


def pieces(block, style=None):
    """Printed program as a list of text pieces; keyword occurrences are `K` instances."""
    return _block(block, 0, style or {})


def render(block, style=None, case=None):
    """OAL text of a block.  case(index, keyword) -> spelling of the index-th keyword occurrence."""
    out, n = [], 0
    for p in pieces(block, style):
        if isinstance(p, K):
            out.append(case(n, str(p)) if case else str(p))
            n += 1
        else:
            out.append(p)
    return ''.join(out)


def count_keywords(block, style=None):
    return sum(1 for p in pieces(block, style) if isinstance(p, K))


# ================================================================================================= relational model
class Attr(object):
    def __init__(self, name, ty, kind='plain', rel=None, ref_attr=None, toward=None, body=None):
        # kind: plain | id | ref (referential: value of `ref_attr` of the instance reached over `rel` toward `toward`) | derived
        self.name, self.ty, self.kind, self.rel, self.ref_attr, self.toward, self.body = name, ty, kind, rel, ref_attr, toward, body


class Rel(object):
    """kind 'simple': classes (part, form); form_many = many formalizer instances per participant instance.
    Reflexive when part == form: phrases (part_phrase reaches the participant, form_phrase reaches the formalizer).
    kind 'linked': classes (one, oth, link): triples (one, oth, link); *_many as for simple."""
    def __init__(self, name, kind, part, form, link=None, part_many=False, form_many=False, part_phrase='', form_phrase=''):
        self.name, self.kind, self.part, self.form, self.link = name, kind, part, form, link
        self.part_many, self.form_many, self.part_phrase, self.form_phrase = part_many, form_many, part_phrase, form_phrase

    @property
    def reflexive(self):
        return self.part == self.form


class Callable_(object):
    def __init__(self, kind, name, params, ret, body, cls=None, pure=True):
        # kind: function | bridge | cop (class-based operation) | iop (instance-based operation)
        self.kind, self.name, self.params, self.ret, self.body, self.cls, self.pure = kind, name, params, ret, body, cls, pure


class Schema(object):
    def __init__(self):
        self.classes = {}       # key letters -> [Attr]
        self.rels = {}          # 'R1' -> Rel
        self.functions = {}     # name -> Callable_
        self.bridges = {}       # (ee, name) -> Callable_
        self.operations = {}    # (class, name) -> Callable_
        self.enums = {}         # type name -> [enumerator names in modeled order]
        self.consts = {}        # name -> value

    def attr(self, cls, name):
        for a in self.classes[cls]:
            if a.name == name:
                return a
        raise OutOfDomain('no attribute %s.%s' % (cls, name))


class Row(object):
    """One instance: identity + attribute values."""
    __slots__ = ('cls', 'vals', 'alive', 'serial')

    def __init__(self, cls, vals, serial):
        self.cls, self.vals, self.alive, self.serial = cls, vals, True, serial

    def __repr__(self):
        return '<%s#%d>' % (self.cls, self.serial)


class Id(object):
    """An identifier value: ('fix', n) given by the initial population, ('new', k) generated by the k-th `create`.
    Only equality is defined on identifiers."""
    __slots__ = ('key',)

    def __init__(self, kind, n):
        self.key = (kind, n)

    def __eq__(self, other):
        return isinstance(other, Id) and other.key == self.key

    def __ne__(self, other):
        return not self == other

    def __hash__(self):
        return hash(self.key)

    def __repr__(self):
        return '%s%d' % self.key


DEFAULTS = dict(integer=0, string='', boolean=False, real=0.0)


class World(object):
    def __init__(self, schema):
        self.schema = schema
        self.extent = dict((c, []) for c in schema.classes)
        self.links = dict((r, []) for r in schema.rels)
        self.serial = 0
        self.ids = 0

    def create(self, cls, **vals):
        self.serial += 1
        v = {}
        for a in self.schema.classes[cls]:
            if a.kind == 'plain':
                v[a.name] = vals.get(a.name, DEFAULTS[a.ty])
            elif a.kind == 'id':
                if a.name in vals:
                    v[a.name] = Id('fix', vals[a.name])
                else:
                    self.ids += 1
                    v[a.name] = Id('new', self.ids)
        row = Row(cls, v, self.serial)
        self.extent[cls].append(row)
        return row

    # -- links -------------------------------------------------------------------------------------------------
    def navigate(self, row, cls, rel_name, phrase):
        """Instances of `cls` reached from `row` over `rel_name` (phrase for reflexive associations), in relate order."""
        rel = self.schema.rels.get(rel_name)
        if rel is None:
            raise OutOfDomain('unknown association')
        tuples = self.links[rel_name]
        if rel.kind == 'simple':
            if rel.reflexive:
                if row.cls != rel.part or cls != rel.part:
                    raise OutOfDomain('bad navigation')
                if phrase == rel.form_phrase:
                    return [f for p, f in tuples if p is row]
                if phrase == rel.part_phrase:
                    return [p for p, f in tuples if f is row]
                raise OutOfDomain('reflexive navigation needs a phrase')
            if phrase:
                raise OutOfDomain('phrase on a non-reflexive association is not generated')
            if row.cls == rel.part and cls == rel.form:
                return [f for p, f in tuples if p is row]
            if row.cls == rel.form and cls == rel.part:
                return [p for p, f in tuples if f is row]
            raise OutOfDomain('bad navigation')
        if phrase:
            raise OutOfDomain('phrase on a non-reflexive association is not generated')
        names = (rel.part, rel.form, rel.link)
        if row.cls not in names or cls not in names or row.cls == cls:
            raise OutOfDomain('bad navigation')
        i, j = names.index(row.cls), names.index(cls)
        return [t[j] for t in tuples if t[i] is row]

    def relate(self, x, y, rel_name, phrase, using):
        rel = self.schema.rels.get(rel_name)
        if rel is None:
            raise OutOfDomain('unknown association')
        tuples = self.links[rel_name]
        if rel.kind == 'simple':
            if using is not None:
                raise OutOfDomain('using on a simple association')
            p, f = self._orient(rel, x, y, phrase)
            if any(a is p and b is f for a, b in tuples):
                raise OutOfDomain('already related')
            if not rel.form_many and any(a is p for a, b in tuples):
                raise OutOfDomain('multiplicity')
            if not rel.part_many and any(b is f for a, b in tuples):
                raise OutOfDomain('multiplicity')
            if rel.reflexive and p is f:
                raise OutOfDomain('reflexive self link is not generated')
            tuples.append((p, f))
        else:
            if using is None or phrase:
                raise OutOfDomain('association class needs using')
            one, oth = self._orient_linked(rel, x, y)
            if using.cls != rel.link:
                raise OutOfDomain('bad link instance')
            if any(t[2] is using for t in tuples) or any(t[0] is one and t[1] is oth for t in tuples):
                raise OutOfDomain('already related')
            if not rel.form_many and any(t[0] is one for t in tuples):
                raise OutOfDomain('multiplicity')
            if not rel.part_many and any(t[1] is oth for t in tuples):
                raise OutOfDomain('multiplicity')
            tuples.append((one, oth, using))

    def unrelate(self, x, y, rel_name, phrase, using):
        rel = self.schema.rels.get(rel_name)
        if rel is None:
            raise OutOfDomain('unknown association')
        tuples = self.links[rel_name]
        if rel.kind == 'simple':
            if using is not None:
                raise OutOfDomain('using on a simple association')
            p, f = self._orient(rel, x, y, phrase)
            for k, (a, b) in enumerate(tuples):
                if a is p and b is f:
                    del tuples[k]
                    return
        else:
            if using is None or phrase:
                raise OutOfDomain('association class needs using')
            one, oth = self._orient_linked(rel, x, y)
            for k, t in enumerate(tuples):
                if t[0] is one and t[1] is oth and t[2] is using:
                    del tuples[k]
                    return
        raise OutOfDomain('not related')

    @staticmethod
    def _orient(rel, x, y, phrase):
        """(participant, formalizer) of `relate x to y across R.'phrase'`: y stands at the end named by the phrase."""
        if rel.reflexive:
            if x.cls != rel.part or y.cls != rel.part:
                raise OutOfDomain('bad classes')
            if phrase == rel.form_phrase:
                return x, y
            if phrase == rel.part_phrase:
                return y, x
            raise OutOfDomain('reflexive relate needs a phrase')
        if phrase:
            raise OutOfDomain('phrase on a non-reflexive association is not generated')
        if x.cls == rel.part and y.cls == rel.form:
            return x, y
        if x.cls == rel.form and y.cls == rel.part:
            return y, x
        raise OutOfDomain('bad classes')

    @staticmethod
    def _orient_linked(rel, x, y):
        if x.cls == rel.part and y.cls == rel.form:
            return x, y
        if x.cls == rel.form and y.cls == rel.part and rel.part != rel.form:
            return y, x
        raise OutOfDomain('bad classes')

    def linked(self, row):
        return any(any(m is row for m in t) for tuples in self.links.values() for t in tuples)

    def delete(self, row):
        if self.linked(row):
            raise OutOfDomain('delete of an instance that still has links')
        self.extent[row.cls] = [r for r in self.extent[row.cls] if r is not row]
        row.alive = False

    def referential(self, row, attr):
        rel = self.schema.rels[attr.rel]
        if rel.kind == 'simple' and rel.reflexive:
            got = self.navigate(row, rel.part, attr.rel, rel.part_phrase)
        else:
            got = self.navigate(row, attr.toward, attr.rel, None)
        if not got:
            return None
        return got[0].vals[attr.ref_attr]


# ================================================================================================= evaluation
class _Break(Exception):
    pass


class _Continue(Exception):
    pass


class _Return(Exception):
    pass


class _Stop(Exception):
    pass


class Frame(object):
    def __init__(self, params=None, this=None, derived=None):
        self.blocks = [{}]
        self.params = params or {}
        self.this = this
        self.derived = derived      # name of the derived attribute being computed
        self.derived_set = False    # the action has assigned self.<derived> (then reading it delivers the value assigned last)
        self.result = None
        self.selected = None


class Machine(object):
    """Big-step evaluator.  `events` records facts the callers use to name clauses (e.g. a bare return was executed)."""

    def __init__(self, world, max_steps=600, max_depth=10, max_calls=10 ** 9, logic='strict', where_effects=False):
        # logic: how the operands of and/or are evaluated.  The property texts do not fix it (OAL does not say whether the right
        # operand is evaluated when the left one settles the outcome), therefore
        #   'strict' (C04, C15)  accepts a program only when both readings agree: both operands are evaluated and neither
        #                        has a side effect;
        #   'eager' / 'short'    (C08, which only relates the case variants of one program to each other) evaluate both
        #                        operands / skip the right operand when the left one settles the outcome, side effects allowed.
        # where_effects: allow side effects while a where clause is evaluated (once per candidate instance, in order), except
        #                creating / deleting instances of the class that is being selected.
        self.logic, self.where_effects = logic, where_effects
        self.max_calls = max_calls
        self.calls = 0
        self.w = world
        self.s = world.schema
        self.steps = 0
        self.max_steps = max_steps
        self.max_depth = max_depth
        self.depth = 0
        self.events = set()
        self.guard = 0          # > 0 while a where clause or an operand of and/or is evaluated: no side effects there
        self.selecting = []     # classes whose instances are being filtered by a where clause (where_effects: they must not change)

    # -- entry points ------------------------------------------------------------------------------------------
    def run_body(self, body, params=None, this=None, derived=None):
        """Execute the body of one action in a frame of its own; value of the executed return (None if none)."""
        self.depth += 1
        self.calls += 1
        if self.depth > self.max_depth:
            self.depth -= 1
            raise OutOfDomain('call depth')
        if self.calls > self.max_calls:
            self.depth -= 1
            raise OutOfDomain('call budget')
        fr = Frame(params, this, derived)
        try:
            self.block(body, fr, new_block=False)
        except _Return:
            pass
        except _Stop:
            self.events.add('stop')
        except (_Break, _Continue):
            raise OutOfDomain('break/continue outside a loop')
        finally:
            self.depth -= 1
        return fr.result

    def call(self, c, args, this=None):
        names = [n for n, _ in c.params]
        args = dict(args)
        if sorted(names) != sorted(args):
            raise OutOfDomain('arguments do not match the signature')
        return self.run_body(c.body, args, this)

    def mutating(self):
        """The evaluation count of where clauses and of and/or operands is not fixed by the property."""
        if self.guard:
            raise OutOfDomain('side effect inside a where clause or an operand of and/or')

    # -- statements --------------------------------------------------------------------------------------------
    def tick(self):
        self.steps += 1
        if self.steps > self.max_steps:
            raise OutOfDomain('step budget')

    def block(self, stmts, fr, new_block=True):
        if new_block:
            fr.blocks.append({})
        try:
            for s in stmts:
                self.stmt(s, fr)
        finally:
            if new_block:
                fr.blocks.pop()

    def lookup(self, fr, name):
        for b in reversed(fr.blocks):
            if name in b:
                return b[name]
        raise OutOfDomain('variable %s read outside its scope' % name)

    def bind(self, fr, name, value):
        for b in reversed(fr.blocks):
            if name in b:
                b[name] = value
                return
        fr.blocks[-1][name] = value

    def handle(self, fr, name):
        v = fr.this if name == 'self' else self.lookup(fr, name)
        return self.live(v)

    @staticmethod
    def live(v):
        if not isinstance(v, Row):
            raise OutOfDomain('empty handle used')
        if not v.alive:
            raise OutOfDomain('deleted instance used')
        return v

    def live_set(self, v):
        if not isinstance(v, list):
            raise OutOfDomain('not a set')
        for r in v:
            self.live(r)
        return v

    def stmt(self, s, fr):
        self.tick()
        t = s[0]
        if t == 'assign':
            value = self.expr(s[2], fr)
            if value is None and s[2][0] in ('fcall', 'ccall', 'icall', 'bcall'):
                raise OutOfDomain('value of a call that returned nothing')
            lhs = s[1]
            if lhs[0] == 'var':
                self.bind(fr, lhs[1], value)
            elif lhs[0] == 'attr':
                if lhs[1][0] == 'self' and fr.derived == lhs[2]:
                    self.expr(lhs[1], fr)
                    fr.result = value
                    fr.derived_set = True
                    return
                row = self.live(self.expr(lhs[1], fr))
                a = self.s.attr(row.cls, lhs[2])
                if a.kind != 'plain':
                    raise OutOfDomain('write to identifier / referential / derived attribute')
                self.mutating()
                row.vals[a.name] = value
            else:
                raise OutOfDomain('bad assignment target')
        elif t == 'if':
            if self.truth(s[1], fr):
                return self.block(s[2], fr)
            for cond, blk in s[3]:
                if self.truth(cond, fr):
                    return self.block(blk, fr)
            if s[4] is not None:
                self.block(s[4], fr)
        elif t == 'while':
            while self.truth(s[1], fr):
                self.tick()
                try:
                    self.block(s[2], fr)
                except _Continue:
                    continue
                except _Break:
                    break
        elif t == 'for':
            items = list(self.live_set(self.lookup(fr, s[2])))
            fr.blocks.append({})        # a loop variable that is new lives only as long as the statement
            try:
                for row in items:
                    self.tick()
                    self.bind(fr, s[1], row)
                    try:
                        self.block(s[3], fr)
                    except _Continue:
                        continue
                    except _Break:
                        break
            finally:
                fr.blocks.pop()
        elif t == 'break':
            raise _Break()
        elif t == 'continue':
            raise _Continue()
        elif t == 'return':
            if s[1] is None:
                self.events.add('bare-return')
                fr.result = None
            else:
                fr.result = self.expr(s[1], fr)
                if fr.result is None:
                    raise OutOfDomain('return of nothing')
            raise _Return()
        elif t == 'stop':
            raise _Stop()
        elif t == 'create':
            self.mutating()
            if s[2] in self.selecting:
                raise OutOfDomain('instance created while the instances of its class are being selected')
            row = self.w.create(s[2])
            if s[1]:
                self.bind(fr, s[1], row)
        elif t == 'delete':
            self.mutating()
            if self.handle(fr, s[1]).cls in self.selecting:
                raise OutOfDomain('instance deleted while the instances of its class are being selected')
            self.w.delete(self.handle(fr, s[1]))
        elif t in ('relate', 'unrelate'):
            x, y = self.handle(fr, s[1]), self.handle(fr, s[2])
            using = self.handle(fr, s[5]) if s[5] else None
            self.mutating()
            (self.w.relate if t == 'relate' else self.w.unrelate)(x, y, s[3], s[4], using)
        elif t == 'selfrom':
            rows = list(self.w.extent[s[3]])
            self.select(fr, s[1], s[2], rows, s[4])
        elif t == 'selrel':
            start = self.expr(s[3], fr)
            rows = list(self.live_set(start)) if isinstance(start, list) else [self.live(start)]
            for cls, rel, phrase in s[4]:
                nxt = []
                for r in rows:
                    for q in self.w.navigate(r, cls, rel, phrase):
                        if not any(q is z for z in nxt):
                            nxt.append(q)
                rows = nxt
            if s[1] == 'one' and len(rows) > 1:
                raise OutOfDomain('select one over a to-many chain')
            self.select(fr, s[1], s[2], rows, s[5])
        elif t == 'call':
            self.expr(s[1], fr)
        else:
            raise OutOfDomain('unknown statement %r' % (t,))

    def select(self, fr, card, var, rows, where):
        many = card == 'many'
        out = []
        for r in rows:
            if where is not None:
                saved = fr.selected
                fr.selected = r
                guarded = 0 if self.where_effects else 1
                self.guard += guarded
                self.selecting.append(r.cls)
                try:
                    ok = self.truth(where, fr)
                finally:
                    fr.selected = saved
                    self.guard -= guarded
                    self.selecting.pop()
                if not ok:
                    continue
            out.append(r)
            if not many:
                break
        self.bind(fr, var, out if many else (out[0] if out else None))

    # -- expressions -------------------------------------------------------------------------------------------
    def truth(self, e, fr):
        v = self.expr(e, fr)
        if not isinstance(v, bool):
            raise OutOfDomain('condition is not boolean')
        return v

    def args(self, args, fr):
        return [(n, self._value(self.expr(e, fr))) for n, e in args]

    @staticmethod
    def _value(v):
        if v is None or isinstance(v, (Row, list)):
            raise OutOfDomain('argument is not a data value')
        return v

    def expr(self, e, fr):
        self.tick()
        t = e[0]
        if t in ('int', 'str', 'bool'):
            return e[1]
        if t == 'var':
            return self.lookup(fr, e[1])
        if t == 'selected':
            if fr.selected is None:
                raise OutOfDomain('selected outside a where clause')
            return fr.selected
        if t == 'self':
            if fr.this is None:
                raise OutOfDomain('self outside an instance-based action')
            return fr.this
        if t == 'param':
            if e[1] not in fr.params:
                raise OutOfDomain('unknown parameter')
            return fr.params[e[1]]
        if t == 'attr':
            row = self.live(self.expr(e[1], fr))
            a = self.s.attr(row.cls, e[2])
            if a.kind == 'ref':
                v = self.w.referential(row, a)
                if v is None:
                    raise OutOfDomain('unset referential attribute read')
                return v
            if a.kind == 'derived':
                if e[1][0] == 'self' and fr.derived == a.name:
                    if not fr.derived_set:
                        raise OutOfDomain('derived attribute read inside its own action before it is assigned')
                    return fr.result        # an attribute that was assigned reads as the value assigned last
                self.events.add('derived-read')
                return self.run_body(a.body, None, row, a.name)
            return row.vals[a.name]
        if t == 'un':
            return self.unary(e[1], self.expr(e[2], fr))
        if t == 'bin' and e[1] in ('and', 'or') and self.logic != 'strict':
            left = self.expr(e[2], fr)
            if self.logic == 'short' and isinstance(left, bool) and left == (e[1] == 'or'):
                return left
            return self.binary(e[1], left, self.expr(e[3], fr))
        if t == 'bin':
            logic = e[1] in ('and', 'or')
            self.guard += logic
            try:
                left = self.expr(e[2], fr)
                right = self.expr(e[3], fr)
            finally:
                self.guard -= logic
            return self.binary(e[1], left, right)
        if t == 'enum':
            if e[1] not in self.s.enums or e[2] not in self.s.enums[e[1]]:
                raise OutOfDomain('unknown enumerator')
            self.events.add('enum-read')
            return self.s.enums[e[1]].index(e[2])
        if t == 'const':
            if e[1] not in self.s.consts:
                raise OutOfDomain('unknown constant')
            self.events.add('const-read')
            return self.s.consts[e[1]]
        if t == 'fcall':
            if e[1] not in self.s.functions:
                raise OutOfDomain('unknown function')
            return self.call(self.s.functions[e[1]], self.args(e[2], fr))
        if t == 'bcall':
            if (e[1], e[2]) not in self.s.bridges:
                raise OutOfDomain('unknown bridge')
            return self.call(self.s.bridges[(e[1], e[2])], self.args(e[3], fr))
        if t == 'ccall':
            c = self.s.operations.get((e[1], e[2]))
            if c is None or c.kind != 'cop':
                raise OutOfDomain('unknown class-based operation')
            return self.call(c, self.args(e[3], fr))
        if t == 'icall':
            row = self.live(self.expr(e[1], fr))
            c = self.s.operations.get((row.cls, e[2]))
            if c is None or c.kind != 'iop':
                raise OutOfDomain('unknown instance-based operation')
            return self.call(c, self.args(e[3], fr), row)
        raise OutOfDomain('unknown expression %r' % (t,))

    def unary(self, op, v):
        if op in ('cardinality', 'empty', 'not_empty'):
            if isinstance(v, list):
                n = len(self.live_set(v))
            elif v is None:
                n = 0
            else:
                self.live(v)
                n = 1
            return n if op == 'cardinality' else (n == 0 if op == 'empty' else n != 0)
        if op == 'not':
            if not isinstance(v, bool):
                raise OutOfDomain('not on non-boolean')
            return not v
        if isinstance(v, bool) or not isinstance(v, int):
            raise OutOfDomain('sign on non-integer')
        return self.sized(-v) if op == '-' else v

    @staticmethod
    def sized(v):
        """Integers stay within 32 bits and strings within 256 characters (larger values: outside the bounded space)."""
        if isinstance(v, str):
            if len(v) > 256:
                raise OutOfDomain('string too long')
        elif not -2 ** 31 <= v < 2 ** 31:
            raise OutOfDomain('integer overflow')
        return v

    @staticmethod
    def _kind(v):
        if isinstance(v, bool):
            return 'bool'
        if isinstance(v, int):
            return 'int'
        if isinstance(v, str):
            return 'str'
        if isinstance(v, Id):
            return 'id'
        return None

    def binary(self, op, a, b):
        ka, kb = self._kind(a), self._kind(b)
        if ka is None or ka != kb:
            raise OutOfDomain('operand types')
        if op in ('and', 'or'):
            if ka != 'bool':
                raise OutOfDomain('operand types')
            return (a and b) if op == 'and' else (a or b)
        if op == '==':
            return a == b
        if op == '!=':
            return a != b
        if op == '+' and ka == 'str':
            return self.sized(a + b)
        if ka != 'int':
            raise OutOfDomain('operand types')
        if op == '+':
            return self.sized(a + b)
        if op == '-':
            return self.sized(a - b)
        if op == '*':
            return self.sized(a * b)
        if op == '<':
            return a < b
        if op == '<=':
            return a <= b
        if op == '>':
            return a > b
        if op == '>=':
            return a >= b
        if op in ('/', '%'):
            if b == 0:
                raise OutOfDomain('division by zero')
            q = abs(a) // abs(b)            # integer division truncates toward zero; the remainder takes the sign of the dividend
            if (a < 0) != (b < 0):
                q = -q
            return q if op == '/' else a - q * b
        raise OutOfDomain('unknown operator %s' % op)


# ================================================================================================= snapshots
def snapshot(world):
    """Final population as plain data: instances by class in creation order with attribute values, links as index tuples."""
    index = {}
    inst = {}
    for cls in sorted(world.extent):
        rows = []
        for i, r in enumerate(world.extent[cls]):
            index[id(r)] = (cls, i)
            vals = {}
            for a in world.schema.classes[cls]:
                if a.kind in ('plain', 'id'):
                    vals[a.name] = r.vals[a.name]
                elif a.kind == 'ref':
                    v = world.referential(r, a)
                    if v is not None:
                        vals[a.name] = v
            rows.append(vals)
        inst[cls] = rows
    links = {}
    for rel in sorted(world.links):
        links[rel] = sorted(tuple(index[id(m)] for m in t) for t in world.links[rel])
    return dict(instances=inst, links=links)
