"""C07 (bounded tier) - OAL parsing follows the precedence table and ignores layout.

print -> parse = identity, on the real parser `bridgepoint.oal.parse`:

* expressions   every operator structure of depth <= 2 over all 16 binary and 6 unary operators and explicit
                parentheses (operands cycle through every operand kind), all triples of binary operators in the four
                depth-3 shapes, depth-3 structures over one representative per precedence level (sampled in the quick
                tier, exhaustive in the thorough tier; the concrete operator of the level is drawn at random), and
                random deeper trees over every operand kind.  Each tree is written with only the parentheses required
                by the precedence of the *property statement* (or < and < comparisons < + - | < * / & ^ < % < unary,
                equal levels group to the left, comparisons do not associate) in a single-spaced and in a tight
                layout, parsed, and the returned tree compared with the generated one.
* statements    every statement production with every combination of its variants; each statement is written
                (T0) with all optional words single-spaced, (T1) with a random choice of optional words, (T2) as T1
                with random blanks, tabs, line breaks and comments; each text must parse to the generated tree.
* programs      random multi-statement programs with nested blocks, random optional words and layout.

The oracle (trees, printer, precedence, tokenizer) is in _oal_gen.py and never calls the library.
"""
import json

import vlib.fresh_ply  # noqa: F401  (tables from the current source)
from vlib.bounded import item

from bounded import _oal_gen as G

_STANDS = ['bridgepoint.oal.OALParser (LALR table, precedence, expression and statement actions)',
           'bridgepoint.oal.parse']


_warm = []


def _oal():
    import bridgepoint.oal as oal
    if not _warm:
        # the first parse of a process builds the LALR table (about a second): not part of any measurement
        _warm.append(1)
        try:
            oal.parse('')
        except Exception:
            pass
    return oal


# ------------------------------------------------------------------------------------------------------------
# checks on one text (shared by the items and by replay)
# ------------------------------------------------------------------------------------------------------------
def _is(d, cls):
    return isinstance(d, dict) and d.get('_') == cls


def _sig(x):
    return (x.get('_'), x.get('operator')) if isinstance(x, dict) else ('<value>', None)


def _first_shape_difference(e, o, parent=None):
    """(expected subtree, observed subtree, operator of the enclosing binary operation) at the first place, top
    down and left to right, where node class or operator differ"""
    if not (isinstance(e, dict) and isinstance(o, dict)) or _sig(e) != _sig(o):
        return (e, o, parent) if (isinstance(e, dict) or isinstance(o, dict)) else None
    here = e.get('operator') if _is(e, 'BinaryOperationNode') else None
    for k in e:
        a, b = e[k], o.get(k)
        pairs = zip(a, b) if isinstance(a, list) and isinstance(b, list) else [(a, b)]
        for x, y in pairs:
            if isinstance(x, dict) or isinstance(y, dict):
                r = _first_shape_difference(x, y, here)
                if r:
                    return r
    return None


def _classify(exp, obs, d):
    """name the kind of an expression-tree difference: which rule of the property the observed shape breaks"""
    r = _first_shape_difference(exp, obs)
    if not r:
        return 'expr-tree'
    e, o, parent = r
    if _is(e, 'UnaryOperationNode') != _is(o, 'UnaryOperationNode'):
        return 'expr-tree:unary-binding'
    be, bo = _is(e, 'BinaryOperationNode'), _is(o, 'BinaryOperationNode')
    if be and bo:
        le, lo = G.LEVEL.get(e.get('operator')), G.LEVEL.get(o.get('operator'))
    elif (be or bo) and parent in G.LEVEL:
        le, lo = G.LEVEL.get((e if be else o).get('operator')), G.LEVEL[parent]
    else:
        return 'expr-tree'
    if le is None or lo is None:
        return 'expr-tree'
    return 'expr-tree:associativity' if le == lo else 'expr-tree:precedence'


def _check_expr(expr_text, exp):
    """violations of one expression text against its expected plain tree"""
    oal = _oal()
    text = 'v = %s;' % expr_text
    try:
        root = oal.parse(text)
    except Exception as e:  # ParseException or anything else: the text is valid OAL and must parse
        return [dict(clause='expr-parses', observed='%s: %s' % (type(e).__name__, e), required='a tree')]
    try:
        stmts = root.block.statement_list.children
        obs = G.lib_plain(stmts[0].expression, oal.Node) if len(stmts) == 1 else None
    except Exception as e:
        return [dict(clause='expr-tree', observed='%s: %s' % (type(e).__name__, e), required='one assignment')]
    if obs is None:
        return [dict(clause='expr-tree', observed='%d statements' % len(stmts), required='one assignment')]
    d = G.diff(exp, obs)
    if d:
        return [dict(clause=_classify(exp, obs, d), observed=dict(at=d[0], subtree=d[2], tree=G._head(obs)),
                     required=dict(at=d[0], subtree=d[1]))]
    return []


def _check_sequence(texts, exps):
    """the assignments "v = <text>;" written one per line must give the expected trees in order"""
    oal = _oal()
    text = ''.join('v = %s;\n' % t for t in texts)
    try:
        stmts = oal.parse(text).block.statement_list.children
    except Exception as e:
        return [dict(clause='expr-sequence', observed='%s: %s' % (type(e).__name__, e), required='a tree')]
    if len(stmts) != len(texts):
        return [dict(clause='expr-sequence', observed='%d statements' % len(stmts), required=len(texts))]
    for i, exp in enumerate(exps):
        d = G.diff(exp, G.lib_plain(getattr(stmts[i], 'expression', None), oal.Node))
        if d:
            return [dict(clause='expr-sequence', observed=dict(statement=i, at=d[0], subtree=d[2]),
                         required=dict(at=d[0], subtree=d[1]))]
    return []


_PROGRAM_CLAUSE = {'canonical': 'stmt', 'optional-words': 'optional-words', 'layout': 'layout', 'program': 'program'}


def _check_program(text, exp, variant):
    """violations of one program text against its expected plain tree (a BodyNode)"""
    oal = _oal()
    base = _PROGRAM_CLAUSE[variant]
    try:
        root = oal.parse(text)
    except Exception as e:
        return [dict(clause=base + '-parses', observed='%s: %s' % (type(e).__name__, e), required='a tree')]
    obs = G.lib_plain(root, oal.Node)
    d = G.diff(exp, obs)
    if d:
        return [dict(clause=base + '-tree', observed=dict(at=d[0], subtree=d[2]), required=dict(at=d[0], subtree=d[1]))]
    return []


def _report(ctx, viols, input):
    for v in viols:
        ctx.check(False, clause=v['clause'], input=input, observed=v['observed'], required=v['required'])


# ------------------------------------------------------------------------------------------------------------
# item: expressions
# ------------------------------------------------------------------------------------------------------------
_LEVEL_REPS = [G.OPS_OF_LEVEL[l][0] for l in sorted(G.OPS_OF_LEVEL)]     # one binary operator per level
_UNARY_REPS = ['not']                                                    # stands for any of the six
_BATCH = 40


def _flush(ctx, batch):
    """batch: list of (expr_text, expected plain).  One parse for the whole batch; members of a batch that does
    not come back as expected are re-checked one by one."""
    if not batch:
        return
    oal = _oal()
    text = ''.join('v = %s;\n' % t for t, _ in batch)
    bad = None
    try:
        stmts = oal.parse(text).block.statement_list.children
        if len(stmts) != len(batch):
            bad = list(range(len(batch)))
        else:
            bad = [i for i, (t, exp) in enumerate(batch)
                   if G.diff(exp, G.lib_plain(getattr(stmts[i], 'expression', None), oal.Node))]
    except Exception:
        bad = list(range(len(batch)))
    found = False
    for i in bad:
        t, exp = batch[i]
        v = _check_expr(t, exp)
        if v:
            found = True
            _report(ctx, v, dict(expr=t, tree_json=json.dumps(exp, sort_keys=True)))
    if bad and not found:
        # every member is right alone but the sequence is not
        inp = dict(sequence=[t for t, _ in batch], tree_json=json.dumps([e for _, e in batch], sort_keys=True))
        _report(ctx, _check_sequence(inp['sequence'], [e for _, e in batch]), inp)
    del batch[:]


def _expr_case(ctx, batch, tree, nontrivial=True, tight=True):
    exp = G.plain(tree)
    p = G.print_expr(tree)
    canon, _ = G.layout(p.toks, p.glue, style='canon')
    ctx.case(key=canon, nontrivial=nontrivial)
    batch.append((canon, exp))
    if tight:
        tight, _ = G.layout(p.toks, p.glue, style='tight')
        if tight != canon:
            batch.append((tight, exp))
    if len(batch) >= _BATCH:
        _flush(ctx, batch)


@item('expressions', stands_in_for=_STANDS, shards=8, weight=2,
      bound='operator structures of depth<=2 exhaustive (9385: 16 binary, 6 unary, parentheses; operands cycle over 11 '
            'operand kinds); 16^3 x 4 depth-3 chains exhaustive; depth-3 structures over one binary operator per '
            'precedence level (6) + unary + parentheses (1 531 161 structures, concrete operator of the level drawn at '
            'random): 48 000 sampled in quick, exhaustive in thorough (single-spaced only, short operands); random trees '
            'of depth 4-6 (4 000 quick / 40 000 thorough); otherwise each in a single-spaced and a tight layout')
def expressions(ctx):
    rng = ctx.rng
    leaves = G.LeafCycle(rng, ctx.shard)
    batch = []
    complete = True

    def families():
        # (a) depth <= 2, every operator
        n2 = G.count_structures(2, len(G.BINARY_OPS), len(G.UNARY_OPS))
        for i in range(ctx.shard, n2, ctx.nshards):
            yield G.build(G.structure_at(i, 2, G.BINARY_OPS, G.UNARY_OPS), leaves), True
        # (b) three binary operators, four shapes of depth three
        for i, s in enumerate(G.chains3()):
            if i % ctx.nshards == ctx.shard:
                yield G.build(s, leaves), True
        # (c) random deeper trees, every operand kind (index access, invocations with parameters, ...)
        for _ in range((4000 if ctx.quick else 40000) // ctx.nshards):
            yield G.rand_expr(rng, rng.choice((4, 5, 6))), True
        # (d) depth three over one representative per precedence level, concrete operator drawn from the level
        opmap = lambda tag, rep: rng.choice(G.OPS_OF_LEVEL[G.LEVEL[rep]] if tag == 'B' else G.UNARY_OPS)
        short = G.LeafCycle(rng, ctx.shard)
        short.KINDS = ['int', 'var', 'bool', 'real', 'str']
        n3 = G.count_structures(3, len(_LEVEL_REPS), len(_UNARY_REPS))
        if ctx.quick:
            for _ in range(48000 // ctx.nshards):
                yield G.build(G.structure_at(rng.randrange(n3), 3, _LEVEL_REPS, _UNARY_REPS), leaves, opmap), True
        else:
            for i in range(ctx.shard, n3, ctx.nshards):
                yield G.build(G.structure_at(i, 3, _LEVEL_REPS, _UNARY_REPS), short, opmap), False

    for k, (tree, tight) in enumerate(families()):
        if k % 64 == 0 and ctx.expired():
            complete = False
            break
        _expr_case(ctx, batch, tree, tree.cls in ('BinaryOperationNode', 'UnaryOperationNode', G.PAREN), tight)
    _flush(ctx, batch)
    ctx.exhausted = complete
    if ctx.shard == 0:
        ctx.note('unary operators bind tighter than every binary operator, as the property states: "not a == b" is '
                 'generated from (not a) == b')
        ctx.note('not checked: upper/mixed-case operator words (C08), keywords used as identifiers')


# ------------------------------------------------------------------------------------------------------------
# item: statements
# ------------------------------------------------------------------------------------------------------------
def _three_texts(rng, body):
    """(variant, text) T0 canonical, T1 optional words chosen at random, T2 = T1 in a random layout"""
    p0 = G.print_program(body, rng, 'all')
    t0, _ = G.layout(p0.toks, p0.glue, style='canon')
    p1 = G.print_program(body, rng, 'random')
    t1, _ = G.layout(p1.toks, p1.glue, style='canon')
    t2, _ = G.layout(p1.toks, p1.glue, rng, style='random', multiline_tokens=rng.random() < 0.2)
    return [('canonical', t0), ('optional-words', t1), ('layout', t2)]


def _stmt_case(ctx, body, key):
    exp = G.plain(body)
    tj = None
    texts = _three_texts(ctx.rng, body)
    ctx.case(key=key if key is not None else texts[0][1])
    for variant, text in texts:
        v = _check_program(text, exp, variant)
        if v:
            tj = tj or json.dumps(exp, sort_keys=True)
            _report(ctx, v, dict(text=text, tree_json=tj, variant=variant))
            break       # the later variants would repeat the same failure


@item('statements', stands_in_for=_STANDS, shards=5, weight=2,
      bound='38 statement productions x every combination of their variants (phrase none/ticked/identifier, using, '
            'self, cardinality, chain length, event meaning/data, elif/else, block sizes ...), then random variants: '
            '100 rounds quick / 3000 thorough; 3 texts each (canonical, random optional words, random layout+comments)')
def statements(ctx):
    rng = ctx.rng
    rounds = 100 if ctx.quick else 3000
    complete = True
    k = 0
    for rnd in range(rounds):
        for kind in G.STATEMENT_KINDS:
            k += 1
            if k % ctx.nshards != ctx.shard:
                continue
            if ctx.expired():
                complete = False
                break
            # small operands and flat blocks first, so that the first failures reported are small
            stmt, pk = G.gen_statement(rng, kind, rnd, depth=rnd % 3, nest=0 if rnd < 24 else 1)
            if pk.overflow:      # all variant combinations of this production are done: random ones from here
                stmt, pk = G.gen_statement(rng, kind, None, depth=rng.choice((0, 1, 2, 3)), nest=rng.choice((0, 1, 2)))
            _stmt_case(ctx, G.Body([stmt]), None)
        if not complete:
            break
    ctx.exhausted = complete
    if ctx.shard == 0:
        ctx.note('optional / tree-neutral spellings exercised: assign, loop, then, "instances of", transform before an '
                 'operation invocation, class|assigner, param|rcvd_evt, polymorphic "*", ticks around a one-word '
                 'phrase, empty "()" event data')
        ctx.note('a namespace is written immediately before "::" (the language lexes <name>:: as one unit); blanks '
                 'between them are not generated.  "end if/for/while" is one token: only white space inside, no comment')
        ctx.note('not checked: empty statements (";;"), trailing commas in parameter lists, keywords as identifiers')


@item('programs', stands_in_for=_STANDS, shards=3, weight=1,
      bound='random programs of 0-6 statements, blocks nested <= 3, expression depth <= 3: 1 800 quick / 45 000 thorough; '
            '3 texts each; plus layout-only texts (empty, blanks, comments only)')
def programs(ctx):
    rng = ctx.rng
    n = (1800 if ctx.quick else 45000) // ctx.nshards
    complete = True
    if ctx.shard == 0:
        empty = G.plain(G.Body([]))
        for text in ['', ' ', '\n', '\t\r\n', '// only a comment', '// c\n', '/* c */', '/* a\n b */\n// c\n  ']:
            ctx.case(key=text, nontrivial=False)
            _report(ctx, _check_program(text, empty, 'layout'),
                    dict(text=text, tree_json=json.dumps(empty, sort_keys=True), variant='layout'))
    for i in range(n):
        if ctx.expired():
            complete = False
            break
        body = G.gen_program(rng, rng.choice((0, 1, 2, 2, 3, 4, 6)), depth=rng.choice((1, 2, 3)),
                             nest=rng.choice((1, 2, 3)))
        exp = G.plain(body)
        texts = _three_texts(rng, body)
        ctx.case(key=texts[2][1], nontrivial=bool(exp['block']['statement_list']['children']))
        for variant, text in texts:
            v = _check_program(text, exp, variant)
            if v:
                for x in v:
                    x['clause'] = 'program-' + x['clause']
                _report(ctx, v, dict(text=text, tree_json=json.dumps(exp, sort_keys=True), variant=variant,
                                     prefix='program-'))
                break
    ctx.exhausted = complete


# ------------------------------------------------------------------------------------------------------------
def replay(item_name, input):
    """input: {'expr': text, 'tree_json': ...} (expressions) or {'text': ..., 'tree_json': ..., 'variant': ...}"""
    exp = json.loads(input['tree_json'])
    if 'sequence' in input:
        return _check_sequence(input['sequence'], exp)
    if 'expr' in input:
        return _check_expr(input['expr'], exp)
    v = _check_program(input['text'], exp, input.get('variant', 'program'))
    for x in v:
        x['clause'] = input.get('prefix', '') + x['clause']
    return v
