"""Helpers of bounded/c09.py: schemas, model states (API histories and SQL text), construction of the state on the
real code, and an independent relational reference model of the same state.

A state description is a JSON-able dict
    {'schema': 'full' | 'mini', 'mode': 'api', 'ops': [op, ...]}
    {'schema': 'full' | 'mini', 'mode': 'load', 'rows': [[class, [values in attribute order]], ...]}
with ops   ['new', class, {attribute: value}]            instance numbers count the 'new' ops from 0
           ['relate', association index, source instance, target instance, form]
           ['unrelate', association index, source instance, target instance, form]
           ['delete', instance]
(source = the instance of the class that carries the referential attributes; form 0 calls relate(source, target,
rel, source phrase), form 1 calls relate(target, source, rel, target phrase)).

Nothing in this file calls the query or navigation functions of xtuml.
"""
import vlib.fresh_ply  # noqa: F401
import xtuml


def U(s):
    return s.upper()


def _assoc(rel, src, skeys, scard, sphrase, tgt, tkeys, tcard, tphrase):
    return dict(rel=rel, src=src, src_keys=skeys, src_card=scard, src_phrase=sphrase,
                tgt=tgt, tgt_keys=tkeys, tgt_card=tcard, tgt_phrase=tphrase)


SCHEMAS = {
    # 1:M (R1), 1:1 (R2), reflexive 1:1 with phrases (R3), association class (R4), subtype/supertype (R5),
    # reflexive through an association class with phrases (R6), reflexive 1:M with phrases (R7)
    'full': dict(
        classes=[
            dict(name='A', attrs=[['Id', 'INTEGER'], ['Name', 'STRING'], ['Num', 'INTEGER'], ['Flag', 'BOOLEAN'], ['Parent_Id', 'INTEGER']]),
            dict(name='B', attrs=[['Id', 'INTEGER'], ['A_Id', 'INTEGER'], ['Next_Id', 'INTEGER'], ['Name', 'STRING'], ['Num', 'INTEGER']]),
            dict(name='C', attrs=[['Id', 'INTEGER'], ['A_Id', 'INTEGER'], ['Val', 'REAL']]),
            dict(name='AB', attrs=[['A_Id', 'INTEGER'], ['B_Id', 'INTEGER'], ['Tag', 'STRING']]),
            dict(name='S1', attrs=[['A_Id', 'INTEGER'], ['Num', 'INTEGER']]),
            dict(name='S2', attrs=[['A_Id', 'INTEGER']]),
            dict(name='LK', attrs=[['From_Id', 'INTEGER'], ['To_Id', 'INTEGER'], ['Num', 'INTEGER']]),
        ],
        assocs=[
            _assoc(1, 'B', ['A_Id'], 'MC', '', 'A', ['Id'], '1C', ''),
            _assoc(2, 'C', ['A_Id'], '1C', '', 'A', ['Id'], '1C', ''),
            _assoc(3, 'B', ['Next_Id'], '1C', 'prev', 'B', ['Id'], '1C', 'next'),
            _assoc(4, 'AB', ['A_Id'], 'MC', '', 'A', ['Id'], '1', ''),
            _assoc(4, 'AB', ['B_Id'], 'MC', '', 'B', ['Id'], '1', ''),
            _assoc(5, 'S1', ['A_Id'], '1C', '', 'A', ['Id'], '1', ''),
            _assoc(5, 'S2', ['A_Id'], '1C', '', 'A', ['Id'], '1', ''),
            _assoc(6, 'LK', ['From_Id'], 'MC', 'p2', 'A', ['Id'], '1', 'p1'),
            _assoc(6, 'LK', ['To_Id'], 'MC', 'p1', 'A', ['Id'], '1', 'p2'),
            _assoc(7, 'A', ['Parent_Id'], 'MC', 'child of', 'A', ['Id'], '1C', 'parent of'),
        ],
        max_instances={'A': 4, 'B': 4, 'C': 2, 'AB': 4, 'S1': 2, 'S2': 2, 'LK': 3},
    ),
    # small schema for exhaustive histories
    'mini': dict(
        classes=[
            dict(name='A', attrs=[['Id', 'INTEGER'], ['Num', 'INTEGER']]),
            dict(name='B', attrs=[['Id', 'INTEGER'], ['A_Id', 'INTEGER'], ['Num', 'INTEGER']]),
        ],
        assocs=[
            _assoc(1, 'B', ['A_Id'], 'MC', '', 'A', ['Id'], '1C', ''),
        ],
        max_instances={'A': 2, 'B': 3},
    ),
}

VALUE_DOMAIN = {'Name': ('a', 'b', 'c'), 'Num': (0, 1, 2), 'Flag': (False, True), 'Val': (0.5, 1.5), 'Tag': ('t', 'u')}


class Invalid(Exception):
    """The state description is not a valid history (used while shrinking)."""


class Reference(object):
    """Plain relational model: instances with their stored values, ordered links per association."""

    def __init__(self, state):
        self.state = state
        self.schema = SCHEMAS[state['schema']]
        self.classes = dict((c['name'], c) for c in self.schema['classes'])
        self.assocs = self.schema['assocs']
        self.inst = []                       # dict(cls, raw, alive)
        self.src_of = [dict() for _ in self.assocs]   # target -> [sources] in connection order
        self.tgt_of = [dict() for _ in self.assocs]   # source -> [targets] in connection order
        self.referential = {}
        for ai, a in enumerate(self.assocs):
            for sk, tk in zip(a['src_keys'], a['tgt_keys']):
                self.referential.setdefault((a['src'], sk), []).insert(0, (ai, tk))
        if state['mode'] == 'api':
            for op in state['ops']:
                self.apply(op)
        else:
            for cname, values in state['rows']:
                attrs = self.classes[cname]['attrs']
                if len(values) != len(attrs):
                    raise Invalid()
                self.inst.append(dict(cls=cname, raw=dict((a[0], v) for a, v in zip(attrs, values)), alive=True))
            self._join()

    # ---- histories

    def can_relate(self, ai, s, t):
        a = self.assocs[ai]
        if not (0 <= s < len(self.inst) and 0 <= t < len(self.inst)):
            return False
        if not (self.inst[s]['alive'] and self.inst[t]['alive']):
            return False
        if self.inst[s]['cls'] != a['src'] or self.inst[t]['cls'] != a['tgt']:
            return False
        if t in self.tgt_of[ai].get(s, []):
            return False
        if self.src_of[ai].get(t) and 'M' not in a['src_card']:
            return False
        if self.tgt_of[ai].get(s) and 'M' not in a['tgt_card']:
            return False
        return True

    def apply(self, op):
        if op[0] == 'new':
            if op[1] not in self.classes:
                raise Invalid()
            self.inst.append(dict(cls=op[1], raw=dict(op[2]), alive=True))
        elif op[0] == 'relate':
            ai, s, t = op[1], op[2], op[3]
            if not self.can_relate(ai, s, t):
                raise Invalid()
            self.src_of[ai].setdefault(t, []).append(s)
            self.tgt_of[ai].setdefault(s, []).append(t)
        elif op[0] == 'unrelate':
            ai, s, t = op[1], op[2], op[3]
            if not (0 <= s < len(self.inst) and 0 <= t < len(self.inst)) or t not in self.tgt_of[ai].get(s, []):
                raise Invalid()
            self._unlink(ai, s, t)
        elif op[0] == 'delete':
            i = op[1]
            if not (0 <= i < len(self.inst)) or not self.inst[i]['alive']:
                raise Invalid()
            self.inst[i]['alive'] = False
            for ai in range(len(self.assocs)):
                for t in list(self.tgt_of[ai].get(i, [])):
                    self._unlink(ai, i, t)
                for s in list(self.src_of[ai].get(i, [])):
                    self._unlink(ai, s, i)
        else:
            raise Invalid()

    def _unlink(self, ai, s, t):
        self.tgt_of[ai][s].remove(t)
        self.src_of[ai][t].remove(s)

    # ---- loading: links are what key equality gives, in model (creation) order

    def _join(self):
        for ai, a in enumerate(self.assocs):
            for s in self.instances(a['src']):
                for t in self.instances(a['tgt']):
                    if all(self.inst[s]['raw'][sk] is not None and self.inst[s]['raw'][sk] == self.inst[t]['raw'][tk]
                           for sk, tk in zip(a['src_keys'], a['tgt_keys'])):
                        self.src_of[ai].setdefault(t, []).append(s)
                        self.tgt_of[ai].setdefault(s, []).append(t)

    # ---- reading the state

    def instances(self, cname):
        return [i for i, r in enumerate(self.inst) if r['cls'] == cname and r['alive']]

    def value(self, i, attr, depth=0):
        """Attribute value as the model shows it; a referential attribute shows the identifying value of the instance
        referred to, nothing when there is none."""
        r = self.inst[i]
        uses = self.referential.get((r['cls'], attr))
        if not uses:
            return r['raw'][attr]
        for ai, tk in uses:
            ts = self.tgt_of[ai].get(i)
            if ts:
                return self.value(ts[0], tk, depth + 1)
        return None

    def step_relation(self, cname, kind, rel, phrase):
        """The one-hop relation cname -> kind across rel/phrase as a function instance -> ordered partner list;
        None when the schema has no such navigation."""
        direct = []
        for ai, a in enumerate(self.assocs):
            if a['rel'] != rel:
                continue
            if a['tgt'] == cname and a['src'] == kind and a['tgt_phrase'] == phrase:
                direct.append(self.src_of[ai])
            if a['src'] == cname and a['tgt'] == kind and a['src_phrase'] == phrase:
                direct.append(self.tgt_of[ai])
        if len(direct) > 1:
            raise Invalid()
        if direct:
            d = direct[0]
            return lambda i: list(d.get(i, []))
        # through an association class: cname -> M -> kind, both hops across rel with the same phrase
        two = []
        for c in self.classes:
            first = self._direct(cname, c, rel, phrase)
            second = self._direct(c, kind, rel, phrase)
            if first is not None and second is not None:
                two.append((first, second))
        if len(two) != 1:
            if two:
                raise Invalid()
            return None
        first, second = two[0]

        def hop(i):
            out = []
            for y in first.get(i, []):
                for z in second.get(y, []):
                    if z not in out:
                        out.append(z)
            return out
        return hop

    def _direct(self, cname, kind, rel, phrase):
        for ai, a in enumerate(self.assocs):
            if a['rel'] != rel:
                continue
            if a['tgt'] == cname and a['src'] == kind and a['tgt_phrase'] == phrase:
                return self.src_of[ai]
            if a['src'] == cname and a['tgt'] == kind and a['src_phrase'] == phrase:
                return self.tgt_of[ai]
        return None


def schema_steps(schema_name):
    """All one-hop navigations the schema offers: {class: [(kind, rel, phrase), ...]} (direct links and the
    shortcuts through association classes)."""
    schema = SCHEMAS[schema_name]
    names = [c['name'] for c in schema['classes']]
    direct = dict((n, []) for n in names)
    for a in schema['assocs']:
        direct[a['tgt']].append((a['src'], a['rel'], a['tgt_phrase']))
        direct[a['src']].append((a['tgt'], a['rel'], a['src_phrase']))
    steps = dict((n, list(dict.fromkeys(direct[n]))) for n in names)
    for n in names:
        via = {}
        for (mid, rel, phrase) in dict.fromkeys(direct[n]):
            for (kind, rel2, phrase2) in dict.fromkeys(direct[mid]):
                if rel2 == rel and phrase2 == phrase and (kind, rel, phrase) not in direct[n]:
                    via.setdefault((kind, rel, phrase), set()).add(mid)
        for key, mids in via.items():
            if len(mids) == 1:          # several association classes in between: which one is used is not specified
                steps[n].append(key)
    return steps


# ------------------------------------------------------------------ the same state on the real code

def _define(m, schema):
    for c in schema['classes']:
        m.define_class(c['name'], [tuple(a) for a in c['attrs']])
    for a in schema['assocs']:
        ass = m.define_association(a['rel'], a['src'], list(a['src_keys']), 'M' in a['src_card'], 'C' in a['src_card'], a['src_phrase'],
                                   a['tgt'], list(a['tgt_keys']), 'M' in a['tgt_card'], 'C' in a['tgt_card'], a['tgt_phrase'])
        ass.formalize()


def build_api(state):
    schema = SCHEMAS[state['schema']]
    m = xtuml.MetaModel(xtuml.IntegerGenerator())
    _define(m, schema)
    inst = []
    for op in state['ops']:
        if op[0] == 'new':
            inst.append(m.new(op[1], **op[2]))
        elif op[0] in ('relate', 'unrelate'):
            a = schema['assocs'][op[1]]
            fn = xtuml.relate if op[0] == 'relate' else xtuml.unrelate
            if len(op) > 4 and op[4] == 1:
                fn(inst[op[3]], inst[op[2]], a['rel'], a['tgt_phrase'])
            else:
                fn(inst[op[2]], inst[op[3]], a['rel'], a['src_phrase'])
        elif op[0] == 'delete':
            xtuml.delete(inst[op[1]])
    return m, inst


def _sql_value(v, ty):
    ty = U(ty)
    if ty == 'BOOLEAN':
        return 'TRUE' if v else 'FALSE'
    if ty == 'STRING':
        return "'%s'" % str(v).replace("'", "''")
    if ty == 'REAL':
        return repr(float(v))
    return str(int(v))


def sql_text(state):
    schema = SCHEMAS[state['schema']]
    out = []
    for c in schema['classes']:
        out.append('CREATE TABLE %s (%s);' % (c['name'], ', '.join('%s %s' % (n, t) for n, t in c['attrs'])))
    for a in schema['assocs']:
        def end(card, kind, keys, phrase):
            return '%s %s (%s)' % (card, kind, ', '.join(keys)) + (" PHRASE '%s'" % phrase if phrase else '')
        out.append('CREATE ROP REF_ID R%d FROM %s TO %s;' % (a['rel'], end(a['src_card'], a['src'], a['src_keys'], a['src_phrase']),
                                                               end(a['tgt_card'], a['tgt'], a['tgt_keys'], a['tgt_phrase'])))
    classes = dict((c['name'], c) for c in schema['classes'])
    for cname, values in state['rows']:
        attrs = classes[cname]['attrs']
        given = [(a, v) for a, v in zip(attrs, values) if v is not None]
        if len(given) == len(attrs):
            out.append('INSERT INTO %s VALUES (%s);' % (cname, ', '.join(_sql_value(v, a[1]) for a, v in given)))
        elif given:
            out.append('INSERT INTO %s (%s) VALUES (%s);' % (cname, ', '.join(a[0] for a, _ in given),
                                                            ', '.join(_sql_value(v, a[1]) for a, v in given)))
        else:
            raise Invalid()
    return '\n'.join(out) + '\n'


def build_load(state):
    loader = xtuml.ModelLoader()
    loader.input(sql_text(state))
    m = loader.build_metamodel()
    # the instances in statement order: per class the pool is in creation order
    pools = {}
    inst = []
    for cname, _ in state['rows']:
        k = pools.get(cname, 0)
        inst.append(m.find_metaclass(cname).storage[k])
        pools[cname] = k + 1
    return m, inst


def build(state):
    return build_api(state) if state['mode'] == 'api' else build_load(state)


# ------------------------------------------------------------------ generators of states

def random_history(rng, schema_name, length):
    schema = SCHEMAS[schema_name]
    state = dict(schema=schema_name, mode='api', ops=[])
    ref = Reference(state)
    next_id = {}
    names = [c['name'] for c in schema['classes']]
    for _ in range(length):
        r = rng.random()
        op = None
        if r < 0.42 or not ref.inst:
            cname = rng.choice(names + ['A', 'B'])
            if len(ref.instances(cname)) >= schema['max_instances'][cname]:
                continue
            vals = {}
            for an, ty in ref.classes[cname]['attrs']:
                if (cname, an) in ref.referential:
                    continue
                if an == 'Id':
                    next_id[cname] = next_id.get(cname, 0) + 1
                    vals[an] = next_id[cname]
                else:
                    vals[an] = rng.choice(VALUE_DOMAIN[an])
            op = ['new', cname, vals]
        elif r < 0.82:
            for _try in range(6):
                ai = rng.randrange(len(ref.assocs))
                a = ref.assocs[ai]
                ss, ts = ref.instances(a['src']), ref.instances(a['tgt'])
                if not ss or not ts:
                    continue
                s, t = rng.choice(ss), rng.choice(ts)
                if ref.can_relate(ai, s, t):
                    op = ['relate', ai, s, t, rng.randint(0, 1)]
                    break
        elif r < 0.91:
            linked = [(ai, s, t) for ai in range(len(ref.assocs)) for s, tt in ref.tgt_of[ai].items() for t in tt]
            if linked:
                ai, s, t = rng.choice(linked)
                op = ['unrelate', ai, s, t, rng.randint(0, 1)]
        else:
            alive = [i for i, x in enumerate(ref.inst) if x['alive']]
            if alive:
                op = ['delete', rng.choice(alive)]
        if op is not None:
            ref.apply(op)
            state['ops'].append(op)
    return state


def random_rows(rng, schema_name):
    """A population for loading: identifiers may repeat (a referring instance then gets several partners on a
    single-valued end) and references may dangle."""
    schema = SCHEMAS[schema_name]
    rows = []
    for c in schema['classes']:
        n = rng.randint(0, schema['max_instances'][c['name']])
        for j in range(n):
            vals = []
            for an, ty in c['attrs']:
                if an == 'Id':
                    vals.append(rng.choice((1, 2, 3)) if rng.random() < 0.3 else j + 1)
                elif an in VALUE_DOMAIN:
                    vals.append(rng.choice(VALUE_DOMAIN[an]))
                else:
                    # a referential attribute: an identifier that may or may not exist; never "no value" (what counts as
                    # no value when loading is property C03's subject)
                    vals.append(rng.choice((1, 1, 2, 2, 3, 4, 9)))
            rows.append([c['name'], vals])
    rng.shuffle(rows)
    return dict(schema=schema_name, mode='load', rows=rows)


def mini_histories(depth):
    """Every valid history of exactly `depth` operations over the mini schema (new with Num in {0, 1}, relate in both
    call forms, unrelate, delete), in a deterministic order."""
    schema = SCHEMAS['mini']

    def rec(ops, d):
        if d == 0:
            yield dict(schema='mini', mode='api', ops=[list(o) for o in ops])
            return
        ref = Reference(dict(schema='mini', mode='api', ops=ops))
        cands = []
        for cname in ('A', 'B'):
            if len([x for x in ref.inst if x['cls'] == cname]) < schema['max_instances'][cname]:
                n = len([x for x in ref.inst if x['cls'] == cname])
                for num in (0, 1):
                    cands.append(['new', cname, {'Id': n + 1, 'Num': num}])
        for s in ref.instances('B'):
            for t in ref.instances('A'):
                if ref.can_relate(0, s, t):
                    cands.append(['relate', 0, s, t, (s + t) % 2])
                if t in ref.tgt_of[0].get(s, []):
                    cands.append(['unrelate', 0, s, t, (s + t) % 2])
        for i, x in enumerate(ref.inst):
            if x['alive']:
                cands.append(['delete', i])
        for c in cands:
            for r in rec(ops + [c], d - 1):
                yield r
    return rec([], depth)
