"""C04 (bounded tier): interpreted OAL computes what the action language defines.

Contract on bridgepoint.interpret.run_function (and through it ActionWalker's while / for each / break / continue / return /
control stop handlers, scoping, select / relate / create / delete handlers): for every type-correct, error-free program of the
enumerated space, the returned value and the final population (instances, attribute values, links) equal the reference
evaluation of bounded/ref_oal.py over a plain relational model.

Schema (generated as BridgePoint model text, loaded by the real loader, turned into a Domain by mk_component):
A(a_id, i, s, b, prev_id) B(b_id, n, t, a_id, a2_id) L(l_id, w, a_id, b_id); R1 A 1:M B, R2 A 1:1 B, R3 reflexive on A
('leads'/'follows'), R4 A M:M B with association class L.  Initial populations: rich / sparse / empty.

Not checked (the property text does not clearly demand it; see the notes of the items): which instance `select any`
returns and the order of `for each` are taken from C09/C02 (creation order / relate order); phrases on non-reflexive
associations; `/` and `%` live in their own item (clauses integer-division, modulo-negative: DESIGN section 6, K3).
Item association-class-hops: selections whose chains cross the association class of R4 (directly and in the two-hop form) on
populations where a participant has 0, 1, 2 and 3 link instances (given initially, or made by the program with relate .. using ..).
Item if-elif-ladders: ladders with 2-3 elif clauses under every truth assignment of their guards (exactly the first clause whose
guard holds runs, else only when none holds), each clause with an observable body.
The model also holds callable elements with observable invocations (_c04_gen.HELPERS); C04's programs never invoke them (C08 does).
"""
import itertools

import vlib.fresh_ply  # noqa: F401
from vlib.bounded import item

from bounded import _c04_gen as G
from bounded import ref_oal as R

STANDS = ['bridgepoint.interpret.run_function', 'bridgepoint.interpret.ActionWalker.accept_WhileNode',
          'bridgepoint.interpret.ActionWalker.accept_ForEachNode', 'bridgepoint.interpret.ActionWalker.accept_BodyNode',
          'bridgepoint.interpret.ActionWalker.accept_BlockNode', 'bridgepoint.interpret.SymbolTable']
NOTE = ('non-trivial cases = programs the reference evaluator accepts on the population (they are run on the real interpreter); '
        'select any/one = first instance in creation / relate order and for-each order are taken from C09/C02; '
        'programs the reference rejects (empty or deleted handle used, multiplicity exceeded, delete of a linked '
        'instance, > 600 steps) are outside the property and skipped; relationship phrases are only written for the reflexive R3 '
        '(a phrase on a non-reflexive association is not clearly demanded by the property; observed: pyxtuml rejects it)')


def soft_expired(ctx, share=0.8):
    import time
    return time.time() > ctx.deadline - (1.0 - share) * ctx.budget_s


def run_case(ctx, tree, pop, item_name, key=None, clause_of=None):
    """Evaluate one program on one population.  Returns True when it was inside the property."""
    res = G.check_program(tree, pop)
    if res is None:
        ctx.case(key=None, nontrivial=False)
        return False
    text = R.render(tree)
    ctx.case(key=key if key is not None else [text, pop], nontrivial=True)
    for clause, observed, required in res:
        if clause_of:
            clause = clause_of(clause)
        ctx.check(False, clause=clause, input=dict(tree=tree, oal=text, population=pop if not isinstance(pop, dict) else 'random',
                                                   population_rows=G.population(pop)),
                  observed=observed, required=required)
    return True


# ------------------------------------------------------------------------------------------------- expressions
def _expression_space():
    """Atoms and all type-correct operator applications over them (depth 1); depth 2 = operators over depth <= 1."""
    x, y = ['var', 'x'], ['var', 'y']
    ints = [['int', 0], ['int', 1], ['int', 3], x, y, ['attr', ['var', 'a1'], 'i'], ['un', 'cardinality', ['var', 'as1']]]
    strs = [['str', ''], ['str', 'x'], ['str', 'y'], ['var', 'u'], ['attr', ['var', 'a1'], 's']]
    bools = [['bool', True], ['bool', False], ['var', 'p'], ['attr', ['var', 'a1'], 'b'], ['un', 'empty', ['var', 'as1']],
             ['un', 'not_empty', ['var', 'a1']], ['un', 'empty', ['var', 'a0']]]
    return dict(int=ints, str=strs, bool=bools)


EXPR_PRELUDE = [['selfrom', 'any', 'a1', 'A', None], ['selfrom', 'many', 'as1', 'A', None],
                ['selfrom', 'any', 'a0', 'A', ['bin', '>', ['attr', ['selected'], 'i'], ['int', 5]]],
                ['assign', ['var', 'x'], ['int', 2]], ['assign', ['var', 'y'], ['un', '-', ['int', 1]]],
                ['assign', ['var', 'u'], ['str', 'x']], ['assign', ['var', 'p'], ['bool', True]]]


def _apply(level):
    """All operator applications whose operands come from `level` (dict type -> list of expressions)."""
    out = dict(int=[], str=[], bool=[])
    for e in level['int']:
        out['int'] += [['un', '-', e], ['un', '+', e]]
    for a, b in itertools.product(level['int'], repeat=2):
        out['int'] += [['bin', op, a, b] for op in ('+', '-', '*')]
        out['bool'] += [['bin', op, a, b] for op in ('<', '<=', '>', '>=', '==', '!=')]
    for a, b in itertools.product(level['str'], repeat=2):
        out['str'].append(['bin', '+', a, b])
        out['bool'] += [['bin', op, a, b] for op in ('==', '!=')]
    for e in level['bool']:
        out['bool'].append(['un', 'not', e])
    for a, b in itertools.product(level['bool'], repeat=2):
        out['bool'] += [['bin', op, a, b] for op in ('and', 'or', '==', '!=')]
    return out


@item('expressions', stands_in_for=STANDS[:1], shards=2, weight=1,
      bound='return <e>: every type-correct operator application over 7 integer / 5 string / 7 boolean atoms (literals, variables, '
            'attribute reads, cardinality/empty/not_empty), depth 1 exhaustive; depth 2 sampled (quick 3000) or as far as the budget allows; no / and %')
def expressions(ctx):
    atoms = _expression_space()
    d1 = _apply(atoms)
    cases = [e for ty in ('int', 'str', 'bool') for e in atoms[ty] + d1[ty]]
    if ctx.shard == 0:
        ctx.note(NOTE)
    n = 0
    for e in cases:
        n += 1
        if n % ctx.nshards != ctx.shard:
            continue
        if ctx.expired():
            ctx.exhausted = False
            return
        run_case(ctx, EXPR_PRELUDE + [['return', e]], 'rich', 'expressions')
    # depth 2: operands of depth <= 1, at least one of depth 1
    upto1 = dict((ty, atoms[ty] + d1[ty]) for ty in atoms)
    sizes = dict((ty, len(upto1[ty])) for ty in upto1)
    total = 0
    ops = [('int', 'int', ('+', '-', '*', '<', '<=', '>', '>=', '==', '!=')), ('str', 'str', ('+', '==', '!=')),
           ('bool', 'bool', ('and', 'or', '==', '!='))]
    limit = 3000 if ctx.quick else 400000
    done = 0
    while done < limit // ctx.nshards:
        if soft_expired(ctx):
            break
        ty, _, oplist = ctx.rng.choice(ops)
        a, b = ctx.rng.choice(upto1[ty]), ctx.rng.choice(upto1[ty])
        op = ctx.rng.choice(oplist)
        e = ['bin', op, a, b]
        if ctx.rng.random() < 0.15:
            e = ['un', 'not', e] if op in ('<', '<=', '>', '>=', '==', '!=', 'and', 'or') else (['un', '-', e] if ty == 'int' else e)
        run_case(ctx, EXPR_PRELUDE + [['return', e]], 'rich', 'expressions')
        done += 1
    ctx.exhausted = False       # depth 1 is exhaustive, depth 2 is sampled
    if ctx.shard == 0:
        ctx.note('depth 1: %d expressions enumerated exhaustively; depth 2 sampled from %s operand expressions per type' % (len(cases), sizes))


# ------------------------------------------------------------------------------------------------- single statements
def _build_single(prof):
    def build(ch):
        g = G.Gen(ch, prof)
        g.scopes = [dict(G.FULL_PRELUDE_SCOPE)]
        g.budget = 1
        body = g.statement(False, 0)
        return G.FULL_PRELUDE + body + G.observe(g.scopes[0], body, g.s) + [['return', ['var', 'o9']]]
    return build


@item('single-statements', stands_in_for=STANDS, shards=3, weight=1,
      bound='prelude (a1,b1,l2,as1 selected; a2,b2,l1 created; x=1) + every single statement the generator can form with atomic '
            'expressions: assignment to variables/attributes, create, delete, relate/unrelate over R1..R4 in both argument orders '
            '(phrases, using), select any/many from instances (with/without where), select one/any/many related by chains of '
            'length 1 (quick) / 2 (thorough) from instance and set, return, control stop (3007 programs quick / 14199 thorough); followed by an epilogue that stores the final variable values in the '
            'population; x 3 populations; exhaustive')
def single_statements(ctx):
    import random
    prof = dict(depth=0, ints=[0, 2], strs=['x'], chain=1 if ctx.quick else 2, elifs=[0], where=0.5)
    if ctx.shard == 0:
        ctx.note(NOTE)
    trees = list(G.enumerate_all(_build_single(prof)))
    random.Random(4).shuffle(trees)          # fixed order, independent of the seed: the space is enumerated completely
    for n, tree in enumerate(trees):
        if n % ctx.nshards != ctx.shard:
            continue
        if ctx.expired():
            ctx.exhausted = False
            return
        for pop in G.POP_NAMES:
            run_case(ctx, tree, pop, 'single-statements')
    ctx.exhausted = True


# ------------------------------------------------------------------------------------------------- control flow
X = ['var', 'x']
CONTROL_MENU = [['assign', X, ['bin', '+', X, ['int', 1]]],
                ['assign', ['attr', ['var', 'a1'], 'i'], ['bin', '+', ['attr', ['var', 'a1'], 'i'], X]],
                ['create', None, 'B']]
CONTROL_CONDS = [['bool', True], ['bool', False], ['bin', '<', X, ['int', 2]]]
CONTROL_PROFILE = dict(inc_first=1.0, menu=CONTROL_MENU, conds=CONTROL_CONDS, depth=0, ints=[7], elifs=[0, 1], counted=1.0, bounds=[2], while_ops=['<'],
                       counters_by_depth=['y', 'z', 'y', 'z'], loop_vars={'A': ['a2'], 'B': ['b2'], 'L': ['l1']},
                       kinds=dict(simple=1, if_=1, while_=1, for_=1, break_=1, continue_=1, return_=1, stop=1))


def _build_control(budget):
    def build(ch):
        g = G.Gen(ch, CONTROL_PROFILE)
        g.scopes = [dict(G.FULL_PRELUDE_SCOPE)]
        g.budget = budget
        g.ret = 'int'
        body = []
        while g.budget > 0:
            body += g.statement(False, 0)
        return G.FULL_PRELUDE + body + [['return', ['bin', '+', ['bin', '*', X, ['int', 100]], ['attr', ['var', 'a1'], 'i']]]]
    return build


@item('control-flow', stands_in_for=STANDS, shards=5, weight=3,
      bound='prelude + every nesting of if/elif/else, counted while, for each over the 3-instance set, break, continue, return, '
            'control stop around 3 marker statements (x=x+1; a1.i=a1.i+x; create B) and 3 guards (true,false,x<2), up to 3 statements '
            'in total (exhaustive: 20475 programs); thorough adds samples of the 4-statement space (about 10^6 programs); population rich')
def control_flow(ctx):
    import random
    if ctx.shard == 0:
        ctx.note(NOTE)
    trees = list(G.enumerate_all(_build_control(3)))
    random.Random(4).shuffle(trees)          # fixed order, independent of the seed: the space is enumerated completely
    for n, tree in enumerate(trees):
        if n % ctx.nshards != ctx.shard:
            continue
        if ctx.expired():
            ctx.exhausted = False
            return
        run_case(ctx, tree, 'rich', 'control-flow')
    ctx.exhausted = True
    if ctx.quick:
        return
    build = _build_control(4)
    extra = 0
    while not soft_expired(ctx):             # thorough: the 4-statement space (about 10^6 programs) is sampled
        tree = build(G.RandomChooser(ctx.rng))
        run_case(ctx, tree, 'rich', 'control-flow')
        extra += 1
    if ctx.shard == 0:
        ctx.note('3-statement space enumerated completely; %d samples of the 4-statement space in shard 0' % extra)


# ------------------------------------------------------------------------------------------------- if / elif / else ladders
@item('if-elif-ladders', stands_in_for=[STANDS[0], 'bridgepoint.interpret.ActionWalker.accept_IfNode', 'bridgepoint.interpret.ActionWalker.accept_ElIfListNode',
                                        'bridgepoint.interpret.ActionWalker.accept_ElIfNode', 'bridgepoint.interpret.ActionWalker.accept_ElseNode'],
      shards=1, weight=1,
      bound='if / elif / else ladders with 2 and 3 elif clauses, with and without else: every truth assignment of the 3-4 guards (48 shapes) x '
            '6 body styles (every clause leaves its own mark m=m*10+clause, plus: attribute write, create, create+relate over R1/R4, assignment '
            'that makes all later guards hold, break/continue/return/control stop) x 6 contexts (top level, inside while, inside for each, in '
            'the then / else / elif block of an enclosing if) with 8 guard styles (literals, overlapping comparisons of one variable, boolean '
            'variables and their negation, attribute reads, empty/not_empty, 3 mixtures) rotating in quick (1728 programs) and crossed in '
            'thorough (13824); plus classification loops (for each over 3 instances / counted while) whose guards compare the loop value with '
            'constants so that the truth assignment changes per iteration: all tuples of 4 forms for 2 elifs, a quarter for 3 elifs in quick '
            '(512 programs), all tuples of 7 forms in thorough (10976); population rich; exhaustive')
def if_elif_ladders(ctx):
    if ctx.shard == 0:
        ctx.note(NOTE)
    for n, (desc, tree) in enumerate(G.ladder_programs(ctx.quick)):
        if n % ctx.nshards != ctx.shard:
            continue
        if ctx.expired():
            ctx.exhausted = False
            return
        run_case(ctx, tree, 'rich', 'if-elif-ladders')
    ctx.exhausted = True


# ------------------------------------------------------------------------------------------------- hops over the association class
@item('association-class-hops', stands_in_for=[STANDS[0], 'bridgepoint.interpret.ActionWalker.accept_SelectRelatedNode',
                                               'bridgepoint.interpret.ActionWalker.accept_SelectRelatedWhereNode',
                                               'bridgepoint.interpret.ActionWalker.accept_RelateUsingNode', 'xtuml.meta.MetaClass.navigate'],
      shards=1, weight=1,
      bound='select one / any / many .. related by <start><chain> [where ..] for every chain of 1-2 (thorough: 1-3) navigation steps that crosses '
            'R4 (A many-to-many B with association class L): the hop to the other participant directly (a->B[R4], b->A[R4]), the explicit '
            'two-hop form over L, hops before and behind it over R1 / R2 / R3 (42 chains; thorough 190); starts: the instances of A with 0, 1, 2 and 3 '
            'link instances, the instances of B with 3, 2, 1 and 0, a link instance, the sets of all A / all B / all L / some A; no where clause and '
            '2 where clauses per class that the partner related first does not satisfy; population links (an eighth of the programs - thorough: all - '
            'also on links-rev: partners and link instances created in reverse order); plus programs that build the links themselves with '
            'relate .. to .. across R4 using .. in both argument orders (one participant in 0..3 link instances, another one in 0..2) and then select '
            'from the participants and from the sets; observed: cardinality and attribute sum of the selection / attribute of the selected '
            'instance, returned and stored; exhaustive (3027 programs quick / 19740 thorough)')
def association_class_hops(ctx):
    if ctx.shard == 0:
        ctx.note(NOTE)
    for n, (desc, tree, pop) in enumerate(G.assoc_hop_programs(ctx.quick)):
        if n % ctx.nshards != ctx.shard:
            continue
        if ctx.expired():
            ctx.exhausted = False
            return
        run_case(ctx, tree, pop, 'association-class-hops')
    ctx.exhausted = True


# ------------------------------------------------------------------------------------------------- sampled programs
@item('programs-sampled', stands_in_for=STANDS, shards=3, weight=3,
      bound='random type-correct programs: random prelude + up to 3 statements / expression depth 2 (quick) or up to 6 statements / '
            'expression depth 3 (thorough), arbitrary nesting of if/elif/else, while, for each, where clauses, chains up to 2 (quick) / 3 steps; '
            'each on the populations rich, sparse, empty and one random population (0-3 A, 0-3 B, 0-4 L, random links within the multiplicities: participants of R4 with several link instances); '
            'sampled until 80% of the time budget')
def programs_sampled(ctx):
    if ctx.shard == 0:
        ctx.note(NOTE)
    prof = dict(depth=2, chain=2) if ctx.quick else dict(depth=3, chain=3)
    max_statements = 3 if ctx.quick else 6
    while not soft_expired(ctx):
        g = G.Gen(G.RandomChooser(ctx.rng), prof)
        tree = g.program(ctx.rng.randint(1, max_statements))
        for pop in G.POP_NAMES + [G.random_population(ctx.rng)]:
            run_case(ctx, tree, pop, 'programs-sampled')
    ctx.exhausted = False


# ------------------------------------------------------------------------------------------------- K3: / and %
def _lit(n):
    return ['int', n] if n >= 0 else ['un', '-', ['int', -n]]


def _division_clause(op, a, b):
    if op == '/':
        return 'integer-division' if a % b != 0 else 'division-exact'
    return 'modulo-negative' if a < 0 or b < 0 else 'modulo'


@item('division-modulo', stands_in_for=['bridgepoint.interpret.ActionWalker.accept_BinaryOperationNode'], shards=1, weight=1,
      bound='return (a / b) and return (a % b) for all integers -7 <= a, b <= 7, b != 0 (literals and variables); integer division '
            'truncates toward zero, the remainder takes the sign of the dividend; exhaustive')
def division_modulo(ctx):
    pairs = sorted(((a, b) for a in range(-7, 8) for b in range(-7, 8) if b != 0), key=lambda p: (abs(p[0]) + abs(p[1]), p))
    for op in ('/', '%'):
        for a, b in pairs:
            if True:
                for form in ('literals', 'variables'):
                    if ctx.expired():
                        ctx.exhausted = False
                        return
                    if form == 'literals':
                        tree = [['return', ['bin', op, _lit(a), _lit(b)]]]
                    else:
                        tree = [['assign', ['var', 'x'], _lit(a)], ['assign', ['var', 'y'], _lit(b)], ['return', ['bin', op, ['var', 'x'], ['var', 'y']]]]
                    run_case(ctx, tree, 'empty', 'division-modulo', clause_of=lambda c, op=op, a=a, b=b: _division_clause(op, a, b)
                             if c == 'result-and-final-population' else c)
    ctx.exhausted = True


# ------------------------------------------------------------------------------------------------- replay
def replay(item_name, input):
    """Re-run one recorded program (its tree, printed afresh and compared with the recorded text) on its population."""
    tree, pop = input['tree'], input.get('population_rows') or input['population']
    res = G.check_program(tree, pop, text=input.get('oal'))
    if res is None:
        return [dict(clause='replay', observed='the reference evaluator rejects the recorded program', required='a program inside the property')]
    out = []
    for clause, observed, required in res:
        if item_name == 'division-modulo' and clause == 'result-and-final-population':
            e = tree[-1][1]
            vals = dict((s[1][1], s[2]) for s in tree if s[0] == 'assign')

            def num(x):
                x = vals.get(x[1], x) if x[0] == 'var' else x
                return x[1] if x[0] == 'int' else -x[2][1]
            clause = _division_clause(e[1], num(e[2]), num(e[3]))
        out.append(dict(clause=clause, observed=G.plain(observed), required=G.plain(required)))
    return out
