"""C10 (bounded tier): names are case-insensitive and every spelling addresses one stored value.

Real code driven: xtuml.meta.Class.__getattr__/__setattr__/__delattr__, MetaClass.new (keywords), MetaModel.find_class/
find_metaclass/new/select_many/select_one/select_any, where_eq (WhereEqual), xtuml.serialize_instance, relate/unrelate.

Oracle (written from the property text, independent of the code): one stored value per (instance, declared attribute);
a name addresses the declared attribute with the same upper-cased spelling; a referential attribute reads as the
identifying attribute of the linked instance and as None when unlinked.

  schema (names of the 2-letter variant; the random item uses 3-letter names):
     class Ab (id unique_id [identifying], Nm string, vL integer)
     class Cd (Id unique_id, rf unique_id [referential -> Ab.id across R1], Nm string)
     R1: Cd (many, conditional) -> Ab (one, conditional)
  instances a1 = Ab(11, 'n0', 7), c1 = Cd(21); instances made by 'new' operations are labelled n1, n2, ...

A case is dict(names='two'|'three', linked=bool, ops=[...]); an operation is
  ['set', label, spelled_attr, value]      setattr
  ['del', label, spelled_attr]             delattr
  ['new', spelled_class, spelled_attr, v]  m.new(spelled_class, **{spelled_attr: v});  v == '@a1' stands for a1's current id
  ['relate'] / ['unrelate']                relate/unrelate c1 and a1 across R1
  ['attr+', 'A'|'C', index|None, name, type]   schema edit: MetaClass.append_attribute (index None) / insert_attribute
  ['attr-', 'A'|'C', name]                 schema edit: MetaClass.delete_attribute (declared spelling)
A case with empty=True starts without instances (the classes have not been used when the first operation runs).
After a schema edit the oracle has one more / one less declared attribute; what instances that existed before the edit hold for
an added attribute is adopted from a read under the declared spelling (the property relates the spellings to each other, it does
not say what a schema edit does to existing instances); instances made afterwards get the typed default.
After the last operation everything is observed: reads of every attribute of every instance under every spelling,
serialization of every instance, where_eq queries under every spelling, class lookup/selection under every spelling.
Every prefix of a history is a case of its own, so only the last step of a case is judged.
"""
import itertools
import signal
import uuid

import vlib.fresh_ply  # noqa: F401
import xtuml

from vlib.bounded import item

CPU_LIMIT_S = 2.0
KEY_CAP = 100000
MISSING = '<no value>'


class Failure(Exception):
    def __init__(self, clause, observed, required):
        Exception.__init__(self, clause)
        self.clause, self.observed, self.required = clause, observed, required


class _Timeout(BaseException):
    pass


def _on_timer(signum, frame):
    raise _Timeout()


try:
    signal.signal(signal.SIGVTALRM, _on_timer)
    _HANDLER = True
except ValueError:
    _HANDLER = False


_SPELLINGS = {}


def spellings(name):
    """All letter-case patterns of a name, the declared spelling first."""
    if name not in _SPELLINGS:
        _SPELLINGS[name] = _spellings(name)
    return _SPELLINGS[name]


def _spellings(name):
    out = [name]
    for bits in itertools.product((0, 1), repeat=len(name)):
        s = ''.join(ch.upper() if b else ch.lower() for ch, b in zip(name, bits))
        if s not in out:
            out.append(s)
    return out


class Names(object):
    def __init__(self, tag, A, C, a_id, a_nm, a_vl, c_id, c_rf, c_nm, unknown):
        self.tag = tag
        self.A, self.C = A, C
        self.a_id, self.a_nm, self.a_vl, self.c_id, self.c_rf, self.c_nm = a_id, a_nm, a_vl, c_id, c_rf, c_nm
        self.unknown = unknown
        self.attrs = {A: [(a_id, 'unique_id'), (a_nm, 'string'), (a_vl, 'integer')],
                      C: [(c_id, 'unique_id'), (c_rf, 'unique_id'), (c_nm, 'string')]}
        self.referential = {C: {c_rf: a_id}}

    def canon_class(self, spelled):
        for k in (self.A, self.C):
            if k.upper() == spelled.upper():
                return k
        return None

    def canon_attr(self, cls, spelled):
        for n, _ in self.attrs[cls]:
            if n.upper() == spelled.upper():
                return n
        return None

    def type_of(self, cls, attr):
        return dict(self.attrs[cls])[attr]

    def is_ref(self, cls, attr):
        return attr in self.referential.get(cls, {})


NAMES = {'two': Names('two', 'Ab', 'Cd', 'id', 'Nm', 'vL', 'Id', 'rf', 'Nm', 'zz'),
         'three': Names('three', 'Abc', 'Cde', 'Idx', 'Nam', 'vaL', 'iDx', 'reF', 'nAm', 'zzz')}


# ----------------------------------------------------------------------------------------------------------------------
# the model pair: real metamodel + oracle
# ----------------------------------------------------------------------------------------------------------------------
class World(object):
    def __init__(self, names, linked, empty=False):
        N = self.N = names
        m = self.m = xtuml.MetaModel(xtuml.IntegerGenerator())
        self.mc = {N.A: m.define_class(N.A, list(N.attrs[N.A])), N.C: m.define_class(N.C, list(N.attrs[N.C]))}
        m.define_unique_identifier(N.A, 1, N.a_id)
        m.define_unique_identifier(N.C, 1, N.c_id)
        ass = m.define_association('R1', N.C, [N.c_rf], True, True, '', N.A, [N.a_id], False, True, '')
        ass.formalize()
        self.inst = {}          # label -> real instance
        self.cls = {}           # label -> declared class name
        self.val = {}           # label -> {declared attribute: value}   (the oracle: ONE value per attribute)
        self.order = []         # labels in creation order
        self.links = set()      # (label of Cd instance, label of Ab instance)
        self.fresh = 0
        self.attrs = {N.A: list(N.attrs[N.A]), N.C: list(N.attrs[N.C])}     # the oracle's record of the declared attributes
        if empty:
            return
        self._add('a1', N.A, m.new(N.A, 11, 'n0', 7), {N.a_id: 11, N.a_nm: 'n0', N.a_vl: 7})
        self._add('c1', N.C, m.new(N.C, 21), {N.c_id: 21, N.c_nm: ''})
        if linked:
            xtuml.relate(self.inst['c1'], self.inst['a1'], 'R1')
            self.links.add(('c1', 'a1'))

    def _add(self, label, cls, inst, values):
        self.inst[label], self.cls[label], self.val[label] = inst, cls, values
        self.order.append(label)

    def label_of(self, inst):
        for l, i in self.inst.items():
            if i is inst:
                return l
        return '<unknown instance %r>' % (inst,)

    def canon_attr(self, cls, spelled):
        for n, _ in self.attrs[cls]:
            if n.upper() == spelled.upper():
                return n
        return None

    # -- oracle reads ---------------------------------------------------------------------------------------------------
    def expected(self, label, attr):
        """(known, value): value is MISSING when no value is stored; known False when the property fixes no value."""
        cls = self.cls[label]
        if self.N.is_ref(cls, attr):
            targets = [a for (c, a) in self.links if c == label]
            if not targets:
                return True, None
            if len(targets) > 1:
                return False, None
            tid = self.N.referential[cls][attr]
            if tid not in self.val[targets[0]]:
                return False, None
            return True, self.val[targets[0]][tid]
        if attr in self.val[label]:
            return True, self.val[label][attr]
        return True, MISSING


def read(inst, spelled):
    try:
        return getattr(inst, spelled)
    except AttributeError:
        return MISSING


def _exc(e):
    return '%s: %s' % (type(e).__name__, e)


_REF_WRITE = {}


def ref_write_outcome(names):
    """Outcome of writing a referential attribute under its *declared* spelling (the relation 'other spellings behave the
    same' is what the property states; whether such a write is accepted is not part of C10)."""
    if names.tag not in _REF_WRITE:
        try:
            w = World(names, True)
        except Exception:
            _REF_WRITE[names.tag] = None        # reported as setup-completes by the case without operations
            return None
        try:
            setattr(w.inst['c1'], names.c_rf, 5)
            _REF_WRITE[names.tag] = None
        except Exception as e:
            _REF_WRITE[names.tag] = type(e).__name__
    return _REF_WRITE[names.tag]


# ----------------------------------------------------------------------------------------------------------------------
# operations
# ----------------------------------------------------------------------------------------------------------------------
class Skip(Exception):
    """The history is outside the enumerated space (relate of a related pair, write the oracle cannot judge, ...)."""


def apply_op(w, op):
    """Executes op on the real model and on the oracle.  Raises Failure for the clauses judged at the operation itself.
    Returns a tag describing the operation for the clause names of the observation."""
    N = w.N
    kind = op[0]
    if kind == 'set':
        _, label, spelled, value = op
        if label not in w.inst:
            raise Skip()
        cls = w.cls[label]
        attr = w.canon_attr(cls, spelled)
        inst = w.inst[label]
        if attr is None:
            raise Skip()
        if N.is_ref(cls, attr):
            want = ref_write_outcome(N)
            if want is None:
                raise Skip()
            try:
                setattr(inst, spelled, value)
                got = None
            except Exception as e:
                got = type(e).__name__
            if got != want:
                raise Failure('setattr-spelling-accepted', dict(spelling=spelled, outcome=got or 'accepted'),
                              dict(outcome=want, because='outcome of the same write under the declared spelling %r' % attr))
            return ('set', label, attr)
        try:
            setattr(inst, spelled, value)
        except Exception as e:
            raise Failure('setattr-spelling-accepted', dict(spelling=spelled, raised=_exc(e)), 'the write is accepted as under %r' % attr)
        w.val[label][attr] = value
        return ('set', label, attr)
    if kind == 'del':
        _, label, spelled = op
        if label not in w.inst:
            raise Skip()
        cls = w.cls[label]
        attr = w.canon_attr(cls, spelled)
        inst = w.inst[label]
        stored = attr is not None and not N.is_ref(cls, attr) and attr in w.val[label]
        try:
            delattr(inst, spelled)
        except Exception as e:
            if stored:
                raise Failure('delattr-spelling-accepted', dict(spelling=spelled, raised=_exc(e)),
                              'the stored value of %r is removed' % attr)
            # nothing is stored under that name: raising is the usual answer, the kind of exception is not part of C10
        if stored:
            del w.val[label][attr]
        return ('del', label, attr)
    if kind == 'new':
        _, spelled_class, spelled_attr, value = op
        cls = N.canon_class(spelled_class)
        attr = w.canon_attr(cls, spelled_attr)
        if attr is None:
            raise Skip()
        if value == '@a1':
            if 'a1' not in w.val or N.a_id not in w.val['a1']:
                raise Skip()
            value = w.val['a1'][N.a_id]
        try:
            inst = w.m.new(spelled_class, **{spelled_attr: value})
        except Exception as e:
            clause = 'class-name-spelling' if isinstance(e, xtuml.UnknownClassException) else 'ctor-keyword-spelling'
            raise Failure(clause, dict(call='new(%r, %s=%r)' % (spelled_class, spelled_attr, value), raised=_exc(e)),
                          'an instance of %s with %s = %r, as under the declared spellings' % (cls, attr, value))
        w.fresh += 1
        label = 'n%d' % w.fresh
        values = {}
        for n, ty in w.attrs[cls]:
            if N.is_ref(cls, n):
                continue
            if ty == 'string':
                values[n] = ''
            elif ty == 'integer':
                values[n] = 0
            else:
                values[n] = None        # defaulted unique_id: drawn from the id generator (C19); adopted below
        w._add(label, cls, inst, values)
        if N.is_ref(cls, attr):
            for l in w.order:
                if w.cls[l] == N.A and w.val[l].get(N.a_id, MISSING) == value:
                    w.links.add((label, l))
        else:
            values[attr] = value
        for n in list(values):
            if values[n] is None:
                values[n] = read(inst, n)       # read under the declared spelling
        return ('new', label, attr)
    if kind in ('attr+', 'attr-'):
        cls = N.A if op[1] == 'A' else N.C
        mc = w.mc[cls]
        if kind == 'attr+':
            _, _, index, name, ty = op
            if w.canon_attr(cls, name) is not None:
                raise Skip()        # two attributes whose names differ in case at most: not in the space
            if index is None:
                mc.append_attribute(name, ty)
                w.attrs[cls].append((name, ty))
            else:
                mc.insert_attribute(index, name, ty)
                w.attrs[cls].insert(index, (name, ty))
            for l in w.order:
                if w.cls[l] == cls:
                    w.val[l].pop(name, None)
                    v = read(w.inst[l], name)       # adopted: read under the declared spelling
                    if v is not MISSING:
                        w.val[l][name] = v
            return ('attr+', None, name)
        name = op[2]
        if N.is_ref(cls, name) or name in (N.a_id, N.c_id) or w.canon_attr(cls, name) != name:
            raise Skip()
        mc.delete_attribute(name)
        w.attrs[cls] = [(n, t) for (n, t) in w.attrs[cls] if n != name]
        for l in w.order:
            if w.cls[l] == cls:
                w.val[l].pop(name, None)        # no longer a declared attribute: not judged any more
        return ('attr-', None, name)
    if kind == 'relate':
        if ('c1', 'a1') in w.links or 'c1' not in w.inst:
            raise Skip()
        xtuml.relate(w.inst['c1'], w.inst['a1'], 'R1')
        w.links.add(('c1', 'a1'))
        return ('relate', 'c1', N.c_rf)
    if kind == 'unrelate':
        if ('c1', 'a1') not in w.links or 'c1' not in w.inst:
            raise Skip()
        xtuml.unrelate(w.inst['c1'], w.inst['a1'], 'R1')
        w.links.discard(('c1', 'a1'))
        return ('unrelate', 'c1', N.c_rf)
    raise ValueError('unknown operation %r' % (op,))


# ----------------------------------------------------------------------------------------------------------------------
# independent reader of the INSERT statement written by serialize_instance
# ----------------------------------------------------------------------------------------------------------------------
def parse_insert(text):
    body = text[text.index('(') + 1:text.rindex(')')]
    values = []
    for line in body.split('\n'):
        line = line.strip()
        if not line:
            continue
        if line.startswith("'"):
            j = 1
            out = []
            while True:
                if line[j] == "'":
                    if line[j + 1:j + 2] == "'":
                        out.append("'")
                        j += 2
                        continue
                    break
                out.append(line[j])
                j += 1
            values.append(''.join(out))
            continue
        tok = line.split(' --')[0].strip().rstrip(',').strip()
        if tok.startswith('"'):
            values.append(uuid.UUID(tok.strip('"')).int)
        else:
            values.append(int(tok))
    return values


# ----------------------------------------------------------------------------------------------------------------------
# observation
# ----------------------------------------------------------------------------------------------------------------------
def _read_clause(tag, label, attr):
    if tag is None:
        return 'read-every-spelling'
    kind, tl, ta = tag
    if kind == 'set':
        return 'setattr-one-stored-value'
    if kind == 'del':
        return 'delattr-removes-value' if (label == tl and attr == ta) else 'delattr-only-named'
    if kind == 'new':
        return 'ctor-keyword-spelling'
    if kind in ('attr+', 'attr-'):
        return 'read-every-spelling:after-schema-edit'
    return 'referential-read-spelling'


def observe(w, tag, class_spellings='rotate', full=True):
    """Judges the state against the oracle.  full: everything; otherwise reads of everything, and serialization, class
    selection and equality filters for what the operation `tag` touched (the rest was judged by the shorter cases)."""
    N = w.N
    if tag is None or tag[0] in ('attr+', 'attr-'):
        full = True
    kind, tl, ta = tag if tag is not None else (None, None, None)
    # 1. reads under every spelling
    for label in w.order:
        inst, cls = w.inst[label], w.cls[label]
        for attr, ty in w.attrs[cls]:
            known, want = w.expected(label, attr)
            if not known:
                continue
            for sp in spellings(attr):
                try:
                    got = read(inst, sp)
                except Exception as e:
                    raise Failure(_read_clause(tag, label, attr), dict(read='%s.%s' % (label, sp), raised=_exc(e)), dict(value=want))
                if got != want or type(got) != type(want):
                    raise Failure(_read_clause(tag, label, attr), dict(read='%s.%s' % (label, sp), value=got),
                                  dict(value=want, declared=attr))
    touched = set(w.order) if full else set([tl]) | set(c for (c, a) in w.links if a == tl)
    # 2. serialization carries the stored values
    for label in w.order:
        if label not in touched:
            continue
        inst, cls = w.inst[label], w.cls[label]
        wants = []
        for attr, ty in w.attrs[cls]:
            known, want = w.expected(label, attr)
            if not known or want is MISSING:
                wants = None
                break
            wants.append(0 if (want is None and ty == 'unique_id') else want)
        if wants is None:
            continue
        try:
            text = xtuml.serialize_instance(inst)
            got = parse_insert(text)
        except Exception as e:
            raise Failure('serialized-value', dict(instance=label, raised=_exc(e)), dict(values=wants))
        if got != wants:
            raise Failure('serialized-value', dict(instance=label, values=got), dict(values=wants))
    # 3. class names: every spelling addresses the same class and pool
    pools = {}
    for cls in (N.A, N.C):
        pools[cls] = [l for l in w.order if w.cls[l] == cls]
        if not full and not (kind == 'new' and w.cls[tl] == cls):
            continue
        for sp in spellings(cls):
            try:
                mc = w.m.find_metaclass(sp)
                kl = w.m.find_class(sp)
                sel = [w.label_of(i) for i in w.m.select_many(sp)]
                one = w.m.select_one(sp)
                any_ = w.m.select_any(sp)
            except Exception as e:
                raise Failure('class-name-spelling', dict(name=sp, raised=_exc(e)), 'the class declared as %r' % cls)
            if mc is not w.mc[cls] or kl is not w.mc[cls].clazz:
                raise Failure('class-name-spelling', dict(name=sp, found=getattr(mc, 'kind', repr(mc))), 'the class declared as %r' % cls)
            if sorted(sel) != sorted(pools[cls]) or len(sel) != len(pools[cls]):
                raise Failure('class-name-spelling', dict(select_many=sp, instances=sel), dict(instances=pools[cls]))
            for r, nm in ((one, 'select_one'), (any_, 'select_any')):
                if (r is None) != (not pools[cls]) or (r is not None and w.label_of(r) not in pools[cls]):
                    raise Failure('class-name-spelling', dict(call='%s(%r)' % (nm, sp), result=repr(r)), dict(one_of=pools[cls]))
    # 4. equality filters under every spelling see the stored value
    for cls in (N.A, N.C):
        csp = spellings(cls)
        for ai, (attr, ty) in enumerate(w.attrs[cls]):
            if not full:
                # the class of the touched instance; the referential attribute follows the identifying attribute it refers to
                if not (w.cls[tl] == cls or (w.cls[tl] == N.A and N.is_ref(cls, attr))):
                    continue
            exp = {}
            usable = True
            for l in pools[cls]:
                known, v = w.expected(l, attr)
                if not known or v is MISSING:
                    usable = False
                    break
                exp[l] = v
            if not usable or not exp:
                continue
            probes = []
            if not full and tl in exp:
                probes.append(exp[tl])
            for v in exp.values():
                if v not in probes:
                    probes.append(v)
            probes = probes[:2 if full else 1] + (['no such value'] if ty == 'string' else [987654])
            for si, sp in enumerate(spellings(attr)):
                for vi, v in enumerate(probes):
                    want = sorted(l for l in pools[cls] if exp[l] == v)
                    kinds = csp if class_spellings == 'all' else [csp[(si + ai) % len(csp)]]
                    for ksp in kinds:
                        extra = full or (vi == 0 and si == (ai + len(w.order)) % 4)
                        try:
                            got = sorted(w.label_of(i) for i in w.m.select_many(ksp, xtuml.where_eq(**{sp: v})))
                            got_d = sorted(w.label_of(i) for i in w.m.select_many(ksp, {sp: v})) if extra else want
                            one = w.m.select_any(ksp, xtuml.where_eq(**{sp: v})) if extra else None
                        except Exception as e:
                            raise Failure('where-eq-matches-stored-value', dict(query='select_many(%r, where_eq(%s=%r))' % (ksp, sp, v), raised=_exc(e)),
                                          dict(instances=want))
                        if got != want or got_d != want:
                            raise Failure('where-eq-matches-stored-value',
                                          dict(query='select_many(%r, where_eq(%s=%r))' % (ksp, sp, v), instances=got, dict_form=got_d),
                                          dict(instances=want, stored=exp))
                        if extra and ((one is None) != (not want) or (one is not None and w.label_of(one) not in want)):
                            raise Failure('where-eq-matches-stored-value',
                                          dict(query='select_any(%r, where_eq(%s=%r))' % (ksp, sp, v), result=repr(one)), dict(one_of=want))


# ----------------------------------------------------------------------------------------------------------------------
# running a case
# ----------------------------------------------------------------------------------------------------------------------
_PROGRESS = [0]


def _run_case(case, check_every_step=False, class_spellings='rotate'):
    """Returns None (passes), 'skip' (outside the space) or a Failure.  Only the last step is judged unless check_every_step."""
    N = NAMES[case.get('names', 'two')]
    ops = case['ops']
    n = len(ops)
    _PROGRESS[0] = -1
    try:
        w = World(N, case.get('linked', False), case.get('empty', False))
        if n == 0 or check_every_step:
            observe(w, None, class_spellings)
    except Failure as f:
        return f if (n == 0 or check_every_step) else None
    except Exception as e:      # building the schema and the two instances uses declared spellings only
        return Failure('setup-completes', dict(raised=_exc(e)), 'schema and instances are created') if (n == 0 or check_every_step) else None
    for i, op in enumerate(ops):
        _PROGRESS[0] = i
        last = (i == n - 1) or check_every_step
        try:
            tag = apply_op(w, op)
            if last:
                observe(w, tag, class_spellings, full=check_every_step)
        except Skip:
            return 'skip'
        except Failure as f:
            return f if last else None      # a failing prefix is a (shorter) case of its own
        except Exception as e:
            if last:
                return Failure('operation-completes', dict(op=op, raised=_exc(e)), 'no exception')
            return None
    return None


def _guarded(fn):
    def wrapper(case, *args, **kw):
        if not _HANDLER:
            return fn(case, *args, **kw)
        try:
            signal.setitimer(signal.ITIMER_VIRTUAL, CPU_LIMIT_S)
            try:
                return fn(case, *args, **kw)
            finally:
                signal.setitimer(signal.ITIMER_VIRTUAL, 0)
        except _Timeout:
            if _PROGRESS[0] >= len(case['ops']) - 1 or (args and args[0]) or kw.get('check_every_step'):
                return Failure('bounded-time', dict(cpu_seconds='> %s' % CPU_LIMIT_S), 'attribute access, queries and serialization of 6 instances terminate')
            return None
    return wrapper


run_case = _guarded(_run_case)


def replay(item_name, input):
    if item_name == 'class-names':
        f = _class_names_case(input)
    else:
        f = run_case(input, True, 'all')
    if f is None or f == 'skip':
        return []
    return [dict(clause=f.clause, observed=f.observed, required=f.required)]


# ----------------------------------------------------------------------------------------------------------------------
# alphabets
# ----------------------------------------------------------------------------------------------------------------------
def _alphabet(N, target, full):
    """Operations around one target attribute.  Values written are distinct per alphabet position, so that the last write is recognisable."""
    ops = []
    if target == 'plain':
        label, cls, attr = 'a1', N.A, N.a_nm
        vals = ['w%d' % i for i in range(64)]
        kwval = lambda j: 'k%d' % j
    elif target == 'ident':
        label, cls, attr = 'a1', N.A, N.a_id
        vals = [100 + i for i in range(64)]
        kwval = lambda j: 200 + j
    else:
        label, cls, attr = 'c1', N.C, N.c_rf
        vals = [300 + i for i in range(64)]
        kwval = lambda j: '@a1'
    sps = spellings(attr)
    for i, sp in enumerate(sps):
        ops.append(['set', label, sp, vals[i]])
    for sp in sps:
        ops.append(['del', label, sp])
    ops.append(['del', label, N.unknown])
    csp = spellings(cls)
    for j, sp in enumerate(sps):
        if full:
            for k, c in enumerate(csp):
                ops.append(['new', c, sp, kwval(4 * j + k)])
        else:
            ops.append(['new', csp[len(csp) - 1 - j % len(csp)], sp, kwval(j)])
    if target in ('ident', 'ref'):
        ops += [['relate'], ['unrelate']]
    if target == 'ref':
        ops.append(['set', 'a1', N.a_id, 150])
    return ops


def _histories(alphabet, depth):
    n = len(alphabet)
    for d in range(0, depth + 1):
        for idx in itertools.product(range(n), repeat=d):
            yield idx


def _enumerate(ctx, plans, class_spellings='rotate'):
    """plans: list of (head dict, alphabet, depth).  Returns True when everything was enumerated."""
    i = -1
    timeouts = 0
    reported = {}
    for head, alphabet, depth in plans:
        for idx in _histories(alphabet, depth):
            i += 1
            if i % ctx.nshards != ctx.shard:
                continue
            if (i >> 4) % 64 == 0 and ctx.expired():
                ctx.exhausted = False
                return False
            case = dict(head, ops=[alphabet[j] for j in idx])
            f = run_case(case, False, class_spellings)
            if f == 'skip':
                continue
            ctx.case(key=None, nontrivial=len(ctx.keys) < KEY_CAP, sample=case if (len(idx) >= 3 and i < 40000) else None)
            if f is not None and case['ops'] and f.clause != 'bounded-time' and reported.get(f.clause, 0) < ctx.MAX_PER_CLAUSE:
                # judged only when the history without its last operation passes on every step (else the shorter case reports);
                # once a clause has its full number of reported inputs the repeats are only counted
                if run_case(dict(case, ops=case['ops'][:-1]), True, class_spellings) is not None:
                    continue
            if f is not None:
                reported[f.clause] = reported.get(f.clause, 0) + 1
                ctx.check(False, clause=f.clause, input=case, observed=f.observed, required=f.required)
                if f.clause == 'bounded-time':
                    timeouts += 1
                    if timeouts >= 3:
                        ctx.exhausted = False
                        ctx.note('enumeration stopped after 3 cases that ran into the CPU limit')
                        return False
    return True


_ATTR_HISTORIES = dict(stands_in_for=['xtuml.meta.Class.__getattr__', 'xtuml.meta.Class.__setattr__', 'xtuml.meta.Class.__delattr__',
                     'xtuml.meta.MetaClass.new', 'xtuml.meta.WhereEqual.__call__', 'xtuml.persist.serialize_instance',
                     'xtuml.meta.MetaModel.find_metaclass', 'xtuml.meta.MetaModel.select_many'],
      bound='for each of a plain, an identifying and a referential attribute with a 2-letter name (referential: linked and unlinked start): '
            'every history of length<=4 over write x 4 spellings, delete x 4 spellings, delete of an unknown name, constructor keyword x 4 '
            'spellings (class name in another spelling; thorough: x all 4 class-name spellings), relate/unrelate (13-16 operations; thorough 25-28), '
            'thorough additionally length 5 over the smaller alphabets for the plain and the identifying attribute; after the last operation: reads of every attribute of every instance under '
            'all 4 spellings, serialization of every instance, where_eq (keyword and dict form) and select_any under all attribute spellings, '
            'class lookup and selection under all class-name spellings',
      weight=4)


@item('attr-histories', shards=7, tiers=('quick',), **_ATTR_HISTORIES)
@item('attr-histories', shards=9, tiers=('thorough',), **_ATTR_HISTORIES)
def attr_histories(ctx):
    N = NAMES['two']
    plans = []
    heads = [('plain', False), ('ident', True), ('ref', True), ('ref', False)]
    if ctx.quick:
        for t, linked in heads:
            plans.append((dict(names='two', linked=linked), _alphabet(N, t, False), 4 if t != 'ref' or linked else 3))
    else:
        for t, linked in heads:
            plans.append((dict(names='two', linked=linked), _alphabet(N, t, True), 4))
        for t, linked in heads[:2]:
            plans.append((dict(names='two', linked=linked), _alphabet(N, t, False), 5))
    if _enumerate(ctx, plans):
        ctx.exhausted = True
    if ctx.shard == 0:
        if ref_write_outcome(N) is None:
            ctx.note('a write to a referential attribute under its declared spelling is accepted by this tree; such writes are left out of the histories')
        ctx.note('not checked (not stated by the property): which exception a delete raises when no value is stored under the name; '
                 'define_class with a name differing only in case from an existing class; case of association ids')


# ----------------------------------------------------------------------------------------------------------------------
# histories that edit the schema while attributes are written, read, deleted and queried
# ----------------------------------------------------------------------------------------------------------------------
def _schema_alphabet(N, target, added):
    """Operations around an attribute `added` that schema edits add to (and remove from) a class, next to an attribute the class
    had from the start.  target 'used': class Ab, its instance a1 exists; 'fresh': class Ab, no instance exists at the start
    (n1 is the first one made); 'ref-class': class Cd (it has a referential attribute), its instance c1 exists."""
    sps = spellings(added)
    if target == 'ref-class':
        tag, cls, label, old = 'C', N.C, 'c1', N.c_nm
    else:
        tag, cls, label, old = 'A', N.A, ('a1' if target == 'used' else 'n1'), N.a_nm
    osp = spellings(old)
    csp = spellings(cls)
    ops = [['attr+', tag, None, added, 'string'],       # appended
           ['attr+', tag, 0, added, 'string'],          # in front
           ['attr+', tag, 1, added, 'string'],          # in the middle
           ['attr-', tag, added]]
    if target != 'ref-class':
        ops.append(['attr+', tag, 3, added, 'string'])  # insert at the end
        ops.append(['attr-', tag, old])                 # an attribute in front of it goes
    for i, sp in enumerate(sps):
        ops.append(['set', label, sp, 'w%d' % i])
    ops.append(['del', label, sps[0]])
    ops.append(['del', label, sps[-1]])
    ops.append(['new', csp[-1], sps[1], 'k1'])
    ops.append(['new', csp[1], sps[2], 'k2'])
    ops.append(['set', label, osp[2], 'p0'])
    if target == 'fresh':
        ops.append(['new', csp[2], osp[1], 'q0'])
    else:
        ops.append(['del', label, osp[1]])
    return ops


_SCHEMA_HISTORIES = dict(stands_in_for=['xtuml.meta.Class.__getattr__', 'xtuml.meta.Class.__setattr__', 'xtuml.meta.Class.__delattr__', 'xtuml.meta.MetaClass.new',
                     'xtuml.meta.MetaClass.append_attribute', 'xtuml.meta.MetaClass.insert_attribute', 'xtuml.meta.MetaClass.delete_attribute',
                     'xtuml.meta.WhereEqual.__call__', 'xtuml.persist.serialize_instance'],
      bound='every history of length<=4 (thorough: <=5 for the class with instances) over: a 2-letter string attribute appended / inserted in front / in the middle / at the end, '
            'deleted again, another attribute of the class deleted; the added attribute written under all 4 spellings, deleted under 2, given as '
            'constructor keyword under 2 (class name in another spelling); an original attribute written / deleted / given as keyword in another spelling (14-16 operations); '
            'on class Ab with its instance in use before the first edit, on class Ab with no instance made before the first operation, on class Cd (referential attribute, linked instance); '
            'after the last operation: reads of every declared attribute of every instance under all spellings, serialization, where_eq and '
            'select_any under all spellings, class lookup under all spellings',
      weight=3)


@item('schema-histories', shards=5, tiers=('quick',), **_SCHEMA_HISTORIES)
@item('schema-histories', shards=4, tiers=('thorough',), **_SCHEMA_HISTORIES)
def schema_histories(ctx):
    N = NAMES['two']
    plans = [(dict(names='two', linked=False), _schema_alphabet(N, 'used', 'Xy'), 4 if ctx.quick else 5),
             (dict(names='two', linked=False, empty=True), _schema_alphabet(N, 'fresh', 'Xy'), 4),
             (dict(names='two', linked=True), _schema_alphabet(N, 'ref-class', 'Xy'), 4)]
    if _enumerate(ctx, plans):
        ctx.exhausted = True
    if ctx.shard == 0:
        ctx.note('not checked (not stated by the property): what a schema edit does to the values of instances that existed before it (adopted from a read '
                 'under the declared spelling); attributes whose names differ only in letter case; delete_attribute under another spelling')


# ----------------------------------------------------------------------------------------------------------------------
# class names on their own (longer names, all spellings)
# ----------------------------------------------------------------------------------------------------------------------
def _class_names_case(case):
    name = case['name']
    try:
        m = xtuml.MetaModel(xtuml.IntegerGenerator())
        mc = m.define_class(name, [('Id', 'unique_id'), ('Nm', 'string')])
        m.define_class(name + 'x', [('Id', 'unique_id')])
        made = []
        for sp in case['spellings']:
            inst = m.new(sp, **{case.get('kw', 'Nm'): sp})
            made.append(inst)
            if m.find_metaclass(sp) is not mc or m.find_class(sp) is not mc.clazz:
                return Failure('class-name-spelling', dict(name=sp, found=m.find_metaclass(sp).kind), 'the class declared as %r' % name)
            if xtuml.get_metaclass(inst) is not mc:
                return Failure('class-name-spelling', dict(new=sp, class_of_instance=xtuml.get_metaclass(inst).kind), 'an instance of %r' % name)
            for sp2 in case['spellings']:
                sel = list(m.select_many(sp2))
                if len(sel) != len(made) or any(a is not b for a, b in zip(sorted(sel, key=id), sorted(made, key=id))):
                    return Failure('class-name-spelling', dict(select_many=sp2, count=len(sel)), dict(count=len(made)))
                got = m.select_any(sp2, xtuml.where_eq(**{case.get('kw', 'Nm').upper(): sp}))
                if got is not inst:
                    return Failure('class-name-spelling', dict(select_any=sp2, where=sp, result=repr(got)), 'the instance made by new(%r)' % sp)
        if len(list(m.select_many(name + 'x'))) != 0:
            return Failure('class-name-spelling', dict(pool_of=name + 'x', count=len(list(m.select_many(name + 'x')))), dict(count=0))
    except Exception as e:
        return Failure('class-name-spelling', dict(raised=_exc(e)), 'every spelling addresses the class declared as %r' % name)
    return None


@item('class-names', stands_in_for=['xtuml.meta.MetaModel.find_metaclass', 'xtuml.meta.MetaModel.find_class', 'xtuml.meta.MetaModel.new',
                                    'xtuml.meta.MetaModel.select_many', 'xtuml.meta.MetaModel.select_one'],
      bound='class names Ab, S_dt, Cls3, o_ATTR: all case patterns (4..32) of each in lookup, creation, selection and filtered selection, every pair of spellings',
      shards=1, weight=1)
def class_names(ctx):
    for name in ('Ab', 'S_dt', 'Cls3', 'o_ATTR'):
        case = dict(name=name, spellings=spellings(name))
        ctx.case(key=case, nontrivial=True)
        f = _class_names_case(case)
        if f is not None:
            # smallest pair of spellings that still fails
            for a in case['spellings']:
                small = dict(name=name, spellings=[a]) if a != name else None
                if small and _class_names_case(small) is not None:
                    case, f = small, _class_names_case(small)
                    break
            ctx.check(False, clause=f.clause, input=case, observed=f.observed, required=f.required)
    ctx.exhausted = True


# ----------------------------------------------------------------------------------------------------------------------
# random long histories (3-letter names: 8 spellings each, both instances and all attributes as targets)
# ----------------------------------------------------------------------------------------------------------------------
def _random_op(rng, N, k):
    r = rng.random()
    if r < 0.10:
        # schema edits: two more attributes come and go on either class, an original plain attribute may go and come back
        tag = rng.choice('AC')
        plain = N.a_nm if tag == 'A' else N.c_nm
        name = rng.choice(['xYz', 'Qrs', plain])
        if rng.random() < 0.4:
            return ['attr-', tag, name]
        return ['attr+', tag, rng.choice([None, 0, 1, 2, 3]), name, 'string']
    if r < 0.20:
        # the attributes that schema edits add, under any spelling
        label = rng.choice(['a1', 'c1'])
        sp = rng.choice(spellings(rng.choice(['xYz', 'Qrs'])))
        if rng.random() < 0.7:
            return ['set', label, sp, 'x%d' % k]
        if rng.random() < 0.5:
            return ['del', label, sp]
        return ['new', rng.choice(spellings(N.A if label == 'a1' else N.C)), sp, 'y%d' % k]
    if r < 0.50:
        label = rng.choice(['a1', 'a1', 'c1'])
        cls = N.A if label == 'a1' else N.C
        attr, ty = rng.choice(N.attrs[cls])
        sp = rng.choice(spellings(attr))
        v = ('s%d' % k) if ty == 'string' else 1000 + k
        return ['set', label, sp, v]
    if r < 0.62:
        label = rng.choice(['a1', 'c1'])
        cls = N.A if label == 'a1' else N.C
        attr = rng.choice([a for a, _ in N.attrs[cls]] + [N.unknown])
        return ['del', label, rng.choice(spellings(attr))]
    if r < 0.80:
        cls = rng.choice([N.A, N.C])
        attr, ty = rng.choice(N.attrs[cls])
        if N.is_ref(cls, attr):
            v = '@a1'
        else:
            v = ('t%d' % k) if ty == 'string' else 2000 + k
        return ['new', rng.choice(spellings(cls)), rng.choice(spellings(attr)), v]
    return [rng.choice(['relate', 'unrelate'])]


def _run_long(case):
    """Every step judged; operations outside the space are dropped from the history.  Returns (failure, ops actually executed)."""
    N = NAMES[case['names']]
    done = []
    try:
        w = World(N, case['linked'], case.get('empty', False))
        observe(w, None)
    except Failure as f:
        return f, done
    except Exception as e:
        return Failure('setup-completes', dict(raised=_exc(e)), 'schema and instances are created'), done
    for op in case['ops']:
        if len(w.order) >= 6 and op[0] == 'new':
            continue
        try:
            tag = apply_op(w, op)
            done.append(op)
            observe(w, tag, full=(len(done) % 8 == 0))
        except Skip:
            continue
        except Failure as f:
            if op not in done[-1:]:
                done.append(op)
            return f, done
        except Exception as e:
            done.append(op)
            return Failure('operation-completes', dict(op=op, raised=_exc(e)), 'no exception'), done
    return None, done


def _shrink(case, clause, seconds=6.0):
    import time
    stop = time.time() + seconds
    ops = list(case['ops'])
    changed = True
    while changed:
        changed = False
        for i in range(len(ops) - 2, -1, -1):
            if time.time() > stop:
                return dict(case, ops=ops)
            cand = dict(case, ops=ops[:i] + ops[i + 1:])
            f = run_case(cand, True, 'rotate')
            if isinstance(f, Failure) and f.clause == clause:
                ops = cand['ops']
                changed = True
    return dict(case, ops=ops)


_RANDOM_LONG = dict(stands_in_for=['xtuml.meta.Class.__getattr__', 'xtuml.meta.Class.__setattr__', 'xtuml.meta.Class.__delattr__', 'xtuml.meta.MetaClass.new'],
      bound='random histories of 40 operations over both instances, all six attributes (3-letter names, 8 spellings each), constructor keywords, '
            'relate/unrelate, 10% schema edits (two more attributes come and go at several positions on either class, an original attribute goes and comes back) and 10% '
            'writes/deletes/keywords of the added attributes; everything observed after every step; quick 100 histories per shard, thorough until the time share ends (<= 4000 per shard)',
      weight=1)


@item('random-long', shards=3, tiers=('quick',), **_RANDOM_LONG)
@item('random-long', shards=2, tiers=('thorough',), **_RANDOM_LONG)
def random_long(ctx):
    N = NAMES['three']
    n = 100 if ctx.quick else 4000
    done = failures = 0
    for k in range(n):
        if ctx.expired():
            break
        case = dict(names='three', linked=bool(k % 2), ops=[_random_op(ctx.rng, N, j) for j in range(40)])
        ctx.case(key=None, nontrivial=True, sample=dict(case, ops=case['ops'][:5]) if k == 0 else None)
        done += 1
        if _HANDLER:
            signal.setitimer(signal.ITIMER_VIRTUAL, 20.0)
        try:
            f, executed = _run_long(case)
        except _Timeout:
            ctx.check(False, clause='bounded-time', input=case, observed='> 20 CPU s', required='terminates')
            break
        finally:
            if _HANDLER:
                signal.setitimer(signal.ITIMER_VIRTUAL, 0)
        if f is not None:
            small = _shrink(dict(case, ops=executed), f.clause)
            f2 = run_case(small, True, 'rotate')
            if not isinstance(f2, Failure):
                small, f2 = dict(case, ops=executed), f
            ctx.check(False, clause=f2.clause, input=small, observed=f2.observed, required=f2.required)
            failures += 1
            if failures >= 5:
                ctx.note('sampling stopped after 5 failing histories')
                break
    ctx.exhausted = None
    ctx.note('random sampling (seeded): %d histories in this shard' % done)
