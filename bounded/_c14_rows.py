"""Row-level BridgePoint models for the bounded tier (C14, C20; the C06 seed model is built with it too).

A model is a list of Row(kind, raw value tokens) as written in a .xtuml file (INSERT INTO <kind> VALUES (...);).
Nothing here calls the code under test except `load()`, which hands the printed rows to the real loader.

  parse_rows(text)           independent scanner for INSERT statements (keeps the raw tokens)
  print_rows(rows)           .xtuml text
  Tables(rows)               relational view: tables[kind] -> list of dict(column -> decoded value)
  Builder                    synthesises rows for packages, components, classes, attributes, identifiers,
                             simple / linked / subtype relationships, data types, functions, bridges, operations ...
  edit functions             rename/retype/reorder attribute, toggle Mult/Cond, phrases, permutation of rows, ...
"""
import os
import re
import uuid

NULL = '00000000-0000-0000-0000-000000000000'
RESOURCES = None


def resources_dir():
    global RESOURCES
    if RESOURCES is None:
        import bridgepoint
        RESOURCES = os.path.join(os.path.dirname(os.path.dirname(os.path.abspath(bridgepoint.__file__))), 'tests', 'resources')
    return RESOURCES


# ------------------------------------------------------------------ schema (column names) -----------------------------
_SCHEMA = None


def schema_columns():
    """table -> [column names], read from the CREATE TABLE text of the ooaofooa schema (data, not code under test)."""
    global _SCHEMA
    if _SCHEMA is None:
        from bridgepoint import schema
        _SCHEMA = {}
        for m in re.finditer(r'CREATE TABLE (\w+)\s*\((.*?)\);', schema.classes, re.S):
            cols = [c.split()[0] for c in m.group(2).split(',') if c.strip()]
            _SCHEMA[m.group(1)] = cols
    return _SCHEMA


# ------------------------------------------------------------------ rows -----------------------------------------------
class Row(object):
    __slots__ = ('kind', 'vals')

    def __init__(self, kind, vals):
        self.kind = kind
        self.vals = list(vals)

    def copy(self):
        return Row(self.kind, self.vals)

    def idx(self, col):
        return schema_columns()[self.kind].index(col)

    def get(self, col):
        i = self.idx(col)
        return decode(self.vals[i]) if i < len(self.vals) else None

    def set(self, col, value, guid=False):
        i = self.idx(col)
        self.vals[i] = enc_guid(value) if guid else encode(value)

    def __repr__(self):
        return 'Row(%s, %r)' % (self.kind, self.vals)


def decode(tok):
    if tok.startswith('"'):
        return tok[1:-1].lower()
    if tok.startswith("'"):
        return tok[1:-1].replace("''", "'")
    try:
        return int(tok)
    except ValueError:
        try:
            return float(tok)
        except ValueError:
            return tok


def encode(v):
    if isinstance(v, bool):
        return '1' if v else '0'
    if isinstance(v, int):
        return '%d' % v
    if isinstance(v, float):
        return '%f' % v
    return "'%s'" % v.replace("'", "''")


def enc_guid(g):
    return '"%s"' % g


def parse_rows(text):
    """Scan INSERT INTO K VALUES (v, ...); statements.  Comments (-- to end of line) outside strings are skipped."""
    rows = []
    i, n = 0, len(text)

    def skip_ws(i):
        while i < n:
            c = text[i]
            if c in ' \t\r\n\x0c':
                i += 1
            elif text.startswith('--', i):
                j = text.find('\n', i)
                i = n if j < 0 else j + 1
            else:
                break
        return i

    word = re.compile(r'[A-Za-z_][A-Za-z0-9_]*')
    num = re.compile(r'-?[0-9]+(\.[0-9]+)?')
    while True:
        i = skip_ws(i)
        if i >= n:
            break
        m = word.match(text, i)
        if not m or m.group(0).upper() != 'INSERT':
            raise ValueError('unexpected text at %d: %r' % (i, text[i:i + 30]))
        i = skip_ws(m.end())
        m = word.match(text, i)
        assert m.group(0).upper() == 'INTO'
        i = skip_ws(m.end())
        m = word.match(text, i)
        kind = m.group(0)
        i = skip_ws(m.end())
        m = word.match(text, i)
        assert m.group(0).upper() == 'VALUES'
        i = skip_ws(m.end())
        assert text[i] == '('
        i += 1
        vals = []
        while True:
            i = skip_ws(i)
            c = text[i]
            if c == '"':
                j = text.index('"', i + 1)
                vals.append(text[i:j + 1])
                i = j + 1
            elif c == "'":
                j = i + 1
                while True:
                    j = text.index("'", j)
                    if text.startswith("''", j):
                        j += 2
                        continue
                    break
                vals.append(text[i:j + 1])
                i = j + 1
            else:
                m = num.match(text, i) or word.match(text, i)
                vals.append(m.group(0))
                i = m.end()
            i = skip_ws(i)
            if text[i] == ',':
                i += 1
                continue
            assert text[i] == ')', text[i:i + 20]
            i += 1
            break
        i = skip_ws(i)
        assert text[i] == ';'
        i += 1
        rows.append(Row(kind, vals))
    return rows


def print_rows(rows):
    out = []
    for r in rows:
        out.append('INSERT INTO %s\n\tVALUES (%s);\n' % (r.kind, ',\n\t'.join(r.vals)))
    return ''.join(out)


class Tables(object):
    """tables[kind] -> list of dicts in row order."""

    def __init__(self, rows):
        cols = schema_columns()
        self.t = {}
        for r in rows:
            names = cols.get(r.kind)
            if names is None:
                continue
            d = dict(zip(names, [decode(v) for v in r.vals]))
            self.t.setdefault(r.kind, []).append(d)

    def __getitem__(self, kind):
        return self.t.get(kind, [])

    def where(self, kind, **kw):
        return [d for d in self[kind] if all(d.get(k) == v for k, v in kw.items())]

    def one(self, kind, **kw):
        r = self.where(kind, **kw)
        return r[0] if r else None


_SEEDS = {}


def seed_rows(name):
    """Rows of a seed model: 'Simple_Model' / 'Globals' (tests/resources) or 'globals' (embedded in bridgepoint.schema)."""
    if name not in _SEEDS:
        if name == 'globals':
            from bridgepoint import schema
            text = schema.globals
        else:
            with open(os.path.join(resources_dir(), name + '.xtuml')) as f:
                text = f.read()
        _SEEDS[name] = parse_rows(text)
    return [r.copy() for r in _SEEDS[name]]


# ------------------------------------------------------------------ loading through the real loader -----------------
_LOADERS = {}


def base_loader(load_globals=True):
    """One ooaofooa.ModelLoader per process and configuration (parsing the ooaofooa schema takes ~0.5 s)."""
    from bridgepoint import ooaofooa
    if load_globals not in _LOADERS:
        l = ooaofooa.ModelLoader(load_globals=load_globals)
        _LOADERS[load_globals] = (l, len(l.statements))
    return _LOADERS[load_globals]


_CURRENT = {}


class loaded(object):
    """with loaded(text) as loader: loader has schema (+globals) + text.  The parsed statements of the last text are kept,
    so that building many metamodels from one text parses it once."""

    def __init__(self, text, load_globals=True):
        self.text, self.load_globals = text, load_globals

    def __enter__(self):
        self.l, self.n0 = base_loader(self.load_globals)
        if _CURRENT.get(self.load_globals) != self.text:
            del self.l.statements[self.n0:]
            _CURRENT[self.load_globals] = None
            self.l.input(self.text)
            _CURRENT[self.load_globals] = self.text
        return self.l

    def __exit__(self, *a):
        return False


def load(text, load_globals=True):
    with loaded(text, load_globals) as l:
        return l.build_metamodel()


# ------------------------------------------------------------------ synthesis ------------------------------------------
CORE = {'void': 0, 'boolean': 1, 'integer': 2, 'real': 3, 'string': 4, 'unique_id': 5, 'state<State_Model>': 6,
        'same_as<Base_Attribute>': 7, 'inst_ref<Object>': 8, 'inst_ref_set<Object>': 9, 'inst<Event>': 10,
        'inst<Mapping>': 11, 'inst_ref<Mapping>': 12, 'component_ref': 13, 'date': 14, 'inst_ref<Timer>': 15,
        'timestamp': 16}


def core_id(name):
    return 'ba5eda7a-def5-0000-0000-%012x' % CORE[name]


class Builder(object):
    """Writes rows the way BridgePoint persists a class model.  Identifiers are deterministic."""

    def __init__(self, tag=0xc0de):
        self.rows = []
        self.n = 0
        self.tag = tag
        self.types = dict((k, core_id(k)) for k in CORE)     # type name -> DT_ID
        self.classes = {}                                    # key letters -> dict
        self.sys_id = self.guid()

    def guid(self):
        self.n += 1
        return '%08x-0000-4000-8000-%012x' % (self.tag, self.n)

    def add(self, kind, *vals):
        cols = schema_columns()[kind]
        assert len(vals) == len(cols), (kind, len(vals), len(cols))
        enc = []
        for v in vals:
            if isinstance(v, G):
                enc.append(enc_guid(v.g))
            else:
                enc.append(encode(v))
        r = Row(kind, enc)
        self.rows.append(r)
        return r

    # containers: parent is None (top level), ('pkg', id) or ('comp', id)
    def pe(self, elem_id, parent, ty):
        pkg = parent[1] if parent and parent[0] == 'pkg' else NULL
        comp = parent[1] if parent and parent[0] == 'comp' else NULL
        self.add('PE_PE', G(elem_id), 1, G(pkg), G(comp), ty)

    def package(self, name, parent=None):
        i = self.guid()
        self.pe(i, parent, 7)
        self.add('EP_PKG', G(i), G(self.sys_id if parent is None else NULL), G(self.sys_id), name, '', 0)
        return ('pkg', i)

    def component(self, name, parent=None):
        i = self.guid()
        self.pe(i, parent, 2)
        self.add('C_C', G(i), G(NULL), G(NULL), name, '', 0, G(NULL), False, '', name)
        return ('comp', i)

    def enum(self, name, enumerators, parent=None):
        i = self.guid()
        self.pe(i, parent, 3)
        self.add('S_DT', G(i), G(NULL), name, '', '')
        self.add('S_EDT', G(i))
        prev = NULL
        for e in enumerators:
            ei = self.guid()
            self.add('S_ENUM', G(ei), e, '', G(i), G(prev))
            prev = ei
        self.types[name] = i
        return i

    def udt(self, name, base, parent=None):
        i = self.guid()
        self.pe(i, parent, 3)
        self.add('S_DT', G(i), G(NULL), name, '', '')
        self.add('S_UDT', G(i), G(self.types[base]), 0, '')
        self.types[name] = i
        return i

    def irdt(self, kl, parent=None):
        c = self.classes[kl]
        for is_set, fmt in ((False, 'inst_ref<%s>'), (True, 'inst_ref_set<%s>')):
            i = self.guid()
            self.pe(i, parent, 3)
            self.add('S_DT', G(i), G(NULL), fmt % c['name'], '', '')
            self.add('S_IRDT', G(i), is_set, G(c['id']))
            self.types[fmt % c['name']] = i

    def clazz(self, name, kl, numb, parent=None):
        i = self.guid()
        self.pe(i, parent, 4)
        self.add('O_OBJ', G(i), name, numb, kl, '', G(NULL))
        c = dict(id=i, name=name, kl=kl, attrs=[], last=NULL, ids={})
        self.classes[kl] = c
        for oid in range(3):
            self.add('O_ID', oid, G(i))
        return c

    def attr(self, kl, name, ty, derived=None):
        """Base attribute (derived: OAL text of a derived base attribute)."""
        c = self.classes[kl]
        a = self.guid()
        if derived is None:
            self.add('O_NBATTR', G(a), G(c['id']))
        else:
            self.add('O_DBATTR', G(a), G(c['id']), derived, 1, 0)
        self.add('O_BATTR', G(a), G(c['id']))
        self.add('O_ATTR', G(a), G(c['id']), G(c['last']), name, '', '', name, 0, G(self.types[ty]), '', '')
        c['last'] = a
        c['attrs'].append(dict(id=a, name=name, base=(a, c['id'])))
        return a

    def identifier(self, kl, oid, names):
        c = self.classes[kl]
        for nm in names:
            a = [x for x in c['attrs'] if x['name'] == nm][0]
            self.add('O_OIDA', G(a['id']), G(c['id']), oid, nm)
        c['ids'][oid] = list(names)

    def _rel(self, numb, parent):
        r = self.guid()
        self.pe(r, parent, 9)
        self.add('R_REL', G(r), numb, '', G(NULL))
        return r

    def _rto(self, kl, rel, oid):
        c = self.classes[kl]
        oir = self.guid()
        for nm in c['ids'][oid]:
            a = [x for x in c['attrs'] if x['name'] == nm][0]
            self.add('O_RTIDA', G(a['id']), G(c['id']), oid, G(rel), G(oir))
        self.add('R_RTO', G(c['id']), G(rel), G(oir), oid)
        self.add('R_OIR', G(c['id']), G(rel), G(oir), G(NULL))
        return oir

    def _rgo(self, kl, rel):
        c = self.classes[kl]
        oir = self.guid()
        self.add('R_RGO', G(c['id']), G(rel), G(oir))
        self.add('R_OIR', G(c['id']), G(rel), G(oir), G(NULL))
        return oir

    def _refs(self, from_kl, rel, oir, to_kl, oid, roir, names):
        """Referential attributes in from_kl (one per identifying attribute of to_kl's identifier oid)."""
        f, t = self.classes[from_kl], self.classes[to_kl]
        for nm, idname in zip(names, t['ids'][oid]):
            ta = [x for x in t['attrs'] if x['name'] == idname][0]
            a = self.guid()
            ref = self.guid()
            self.add('O_REF', G(f['id']), G(t['id']), oid, G(ta['id']), G(rel), G(oir), G(roir), G(a), G(ref), G(NULL), False,
                     '', t['name'], idname, 'R%d' % 0)
            self.add('O_RATTR', G(a), G(f['id']), G(ta['base'][0]), G(ta['base'][1]), 1, idname)
            self.add('O_ATTR', G(a), G(f['id']), G(f['last']), nm, '', '', nm, 1, G(core_id('same_as<Base_Attribute>')), '', '')
            f['last'] = a
            f['attrs'].append(dict(id=a, name=nm, base=ta['base']))

    def simple(self, numb, form_kl, part_kl, ref_names, form=(1, 1), part=(0, 0), phrases=('', ''), oid=0, parent=None):
        """form/part = (Mult, Cond) of that end; phrases = (form end text, part end text)."""
        rel = self._rel(numb, parent)
        self.add('R_SIMP', G(rel))
        poir = self._rto(part_kl, rel, oid)
        self.add('R_PART', G(self.classes[part_kl]['id']), G(rel), G(poir), part[0], part[1], phrases[1])
        foir = self._rgo(form_kl, rel)
        self.add('R_FORM', G(self.classes[form_kl]['id']), G(rel), G(foir), form[0], form[1], phrases[0])
        self._refs(form_kl, rel, foir, part_kl, oid, poir, ref_names)
        return rel

    def linked(self, numb, link_kl, one_kl, oth_kl, one_refs, oth_refs, one=(0, 0), oth=(0, 0), phrases=('', ''), parent=None):
        rel = self._rel(numb, parent)
        self.add('R_ASSOC', G(rel))
        ooir = self._rto(one_kl, rel, 0)
        self.add('R_AONE', G(self.classes[one_kl]['id']), G(rel), G(ooir), one[0], one[1], phrases[0])
        toir = self._rto(oth_kl, rel, 0)
        self.add('R_AOTH', G(self.classes[oth_kl]['id']), G(rel), G(toir), oth[0], oth[1], phrases[1])
        loir = self._rgo(link_kl, rel)
        self.add('R_ASSR', G(self.classes[link_kl]['id']), G(rel), G(loir), 0)
        self._refs(link_kl, rel, loir, one_kl, 0, ooir, one_refs)
        self._refs(link_kl, rel, loir, oth_kl, 0, toir, oth_refs)
        return rel

    def subsup(self, numb, super_kl, subs, parent=None):
        """subs: list of (sub key letters, referential attribute names)."""
        rel = self._rel(numb, parent)
        self.add('R_SUBSUP', G(rel))
        soir = self._rto(super_kl, rel, 0)
        self.add('R_SUPER', G(self.classes[super_kl]['id']), G(rel), G(soir))
        for kl, names in subs:
            boir = self._rgo(kl, rel)
            self.add('R_SUB', G(self.classes[kl]['id']), G(rel), G(boir))
            self._refs(kl, rel, boir, super_kl, 0, soir, names)
        return rel

    # callable elements (C06)
    def function(self, name, ret, params, parent=None, body=''):
        i = self.guid()
        self.pe(i, parent, 1)
        self.add('S_SYNC', G(i), G(NULL), name, '', body, G(self.types[ret]), 1, '', 0, 0)
        prev = NULL
        for pn, pt in params:
            p = self.guid()
            self.add('S_SPARM', G(p), G(i), pn, G(self.types[pt]), 0, '', G(prev), '')
            prev = p
        return i

    def ee(self, name, kl, parent=None):
        i = self.guid()
        self.pe(i, parent, 5)
        self.add('S_EE', G(i), name, '', kl, G(NULL), '', '', False)
        return i

    def bridge(self, ee_id, name, ret, params, body=''):
        i = self.guid()
        self.add('S_BRG', G(i), G(ee_id), name, '', 0, G(self.types[ret]), body, 1, '', 0)
        prev = NULL
        for pn, pt in params:
            p = self.guid()
            self.add('S_BPARM', G(p), G(i), pn, G(self.types[pt]), 0, '', G(prev), '')
            prev = p
        return i

    def operation(self, kl, name, ret, params, instance_based=True, body=''):
        c = self.classes[kl]
        i = self.guid()
        prev = c.get('last_tfr', NULL)
        self.add('O_TFR', G(i), G(c['id']), name, '', G(self.types[ret]), 1 if instance_based else 0, body, 1, '', G(prev), 0, 0)
        c['last_tfr'] = i
        prevp = NULL
        for pn, pt in params:
            p = self.guid()
            self.add('O_TPARM', G(p), G(i), pn, G(self.types[pt]), 0, '', G(prevp), '')
            prevp = p
        return i

    def constants(self, group, consts, parent=None):
        """consts: list of (name, type, value text)."""
        i = self.guid()
        self.pe(i, parent, 10)
        self.add('CNST_CSP', G(i), group, '')
        prev = NULL
        for nm, ty, val in consts:
            c = self.guid()
            self.add('CNST_SYC', G(c), nm, '', G(self.types[ty]), G(i), G(prev), G(NULL))
            self.add('CNST_LFSC', G(c), G(self.types[ty]))
            self.add('CNST_LSC', G(c), G(self.types[ty]), val)
            prev = c
        return i


class G(object):
    """Marks a value as a GUID for Builder.add."""
    __slots__ = ('g',)

    def __init__(self, g):
        self.g = g


# ------------------------------------------------------------------ edits on rows ----------------------------------------
def _obj_id(rows, kl):
    for r in rows:
        if r.kind == 'O_OBJ' and r.get('Key_Lett') == kl:
            return r.get('Obj_ID')
    raise KeyError(kl)


def _attr_rows(rows, kl):
    oid = _obj_id(rows, kl)
    return [r for r in rows if r.kind == 'O_ATTR' and r.get('Obj_ID') == oid]


def attr_order(rows, kl):
    """Names of the attributes of a class in modeled (R103) order."""
    ars = _attr_rows(rows, kl)
    ids = set(r.get('Attr_ID') for r in ars)
    by_prev = dict((r.get('PAttr_ID'), r) for r in ars if r.get('PAttr_ID') in ids)
    cur = [r for r in ars if r.get('PAttr_ID') not in ids]
    assert len(cur) == 1, (kl, len(cur))
    out, cur = [], cur[0]
    while cur is not None:
        out.append(cur.get('Name'))
        cur = by_prev.get(cur.get('Attr_ID'))
    return out


def edit_rename_attr(rows, kl, old, new):
    for r in _attr_rows(rows, kl):
        if r.get('Name') == old:
            r.set('Name', new)
            r.set('Root_Nam', new)
            return
    raise KeyError(old)


def type_id(rows, name):
    for r in rows:
        if r.kind == 'S_DT' and r.get('Name') == name:
            return r.get('DT_ID')
    if name in CORE:
        return core_id(name)
    raise KeyError(name)


def edit_retype_attr(rows, kl, name, type_name):
    dt = type_id(rows, type_name)
    for r in _attr_rows(rows, kl):
        if r.get('Name') == name:
            r.set('DT_ID', dt, guid=True)
            return
    raise KeyError(name)


def edit_reorder_attrs(rows, kl, order):
    """order: all attribute names of the class in the new modeled order."""
    ars = dict((r.get('Name'), r) for r in _attr_rows(rows, kl))
    assert sorted(ars) == sorted(order)
    prev = NULL
    for nm in order:
        ars[nm].set('PAttr_ID', prev, guid=True)
        prev = ars[nm].get('Attr_ID')


_END_KIND = {'form': 'R_FORM', 'part': 'R_PART', 'aone': 'R_AONE', 'aoth': 'R_AOTH'}


def _rel_id(rows, numb):
    for r in rows:
        if r.kind == 'R_REL' and r.get('Numb') == numb:
            return r.get('Rel_ID')
    raise KeyError(numb)


def _end_row(rows, numb, end):
    rel = _rel_id(rows, numb)
    for r in rows:
        if r.kind == _END_KIND[end] and r.get('Rel_ID') == rel:
            return r
    raise KeyError((numb, end))


def edit_toggle(rows, numb, end, field):
    r = _end_row(rows, numb, end)
    r.set(field, 0 if r.get(field) else 1)


def edit_phrase(rows, numb, end, text):
    _end_row(rows, numb, end).set('Txt_Phrs', text)


def edit_permute(rows, seed):
    import random
    rnd = random.Random('perm/%s' % seed)
    rnd.shuffle(rows)


def edit_reverse(rows):
    rows.reverse()


def rel_sites(rows):
    """[(numb, end)] of every relationship end carrying Mult/Cond/Txt_Phrs."""
    rel_numb = dict((r.get('Rel_ID'), r.get('Numb')) for r in rows if r.kind == 'R_REL')
    out = []
    for r in rows:
        for end, kind in _END_KIND.items():
            if r.kind == kind:
                out.append((rel_numb[r.get('Rel_ID')], end))
    return sorted(out)


def class_names(rows):
    return [r.get('Key_Lett') for r in rows if r.kind == 'O_OBJ']


def new_guid(rows, salt):
    return str(uuid.uuid5(uuid.UUID(int=0xfeed), '%s/%d' % (salt, len(rows))))
