"""Independent walk of a BridgePoint class model (rows) -> the component description C14 demands, and the reader of
what the code under test produced (serialized schema text).  Written from the property text and the meaning of the
BridgePoint metamodel; no pyxtuml navigation is used here.

Description (JSON-able):
  classes      {key letters: [[attribute name, TYPE], ...]}            modeled (R103) order
  identifiers  {key letters: {'I<n>': [attribute names sorted]}}      only identifiers with at least one attribute
  associations sorted list of
               [rel_id, source kind, source cardinality, source phrase, target kind, target cardinality, target phrase,
                [[referential attribute, identifying attribute], ...] sorted]
               source = the class holding the referential attributes; a phrase is written next to the end it is the
               text of in the serialized ROP: FROM <card> <source> (<refs>) PHRASE <p1> TO <card> <target> (<ids>) PHRASE <p2>
               where p1 is used to navigate from a source instance to the target and p2 the other way.
"""
import re

from ._c14_rows import NULL, Tables

CORE_TYPE = {1: 'BOOLEAN', 2: 'INTEGER', 3: 'REAL', 4: 'STRING', 5: 'UNIQUE_ID'}


class Walk(object):
    def __init__(self, rows):
        self.t = t = Tables(rows)
        self.pe = dict((d['Element_ID'], d) for d in t['PE_PE'])
        self.dt = dict((d['DT_ID'], d) for d in t['S_DT'])
        self.cdt = dict((d['DT_ID'], d) for d in t['S_CDT'])
        self.edt = set(d['DT_ID'] for d in t['S_EDT'])
        self.udt = dict((d['DT_ID'], d) for d in t['S_UDT'])
        self.attr = dict(((d['Attr_ID'], d['Obj_ID']), d) for d in t['O_ATTR'])
        self.rattr = dict(((d['Attr_ID'], d['Obj_ID']), d) for d in t['O_RATTR'])
        self.dbattr = set((d['Attr_ID'], d['Obj_ID']) for d in t['O_DBATTR'])
        self.obj = dict((d['Obj_ID'], d) for d in t['O_OBJ'])
        self.pkg = set(d['Package_ID'] for d in t['EP_PKG'])
        self.comp = dict((d['Id'], d) for d in t['C_C'])
        self.dangling = []      # O_REF rows without their O_RTIDA / O_OIDA / O_RATTR row (model outside the domain)

    # ---- containment (R8000 package contains element, R8003 component contains element) ----
    def containers(self, elem_id):
        """All packages/components that contain the element, directly or through nesting."""
        out, seen = [], set()
        cur = elem_id
        while cur in self.pe and cur not in seen:
            seen.add(cur)
            d = self.pe[cur]
            parent = d['Package_ID'] if d['Package_ID'] != NULL else d['Component_ID']
            if parent == NULL:
                break
            out.append(parent)
            cur = parent
        return out

    def in_component(self, elem_id, comp_id):
        return comp_id is None or comp_id in self.containers(elem_id)

    def is_global(self, elem_id):
        return not any(c in self.comp for c in self.containers(elem_id))

    def component_id(self, name):
        ids = [i for i, d in self.comp.items() if d['Name'] == name]
        return ids[0] if ids else None

    # ---- data types ----
    def base_attr(self, key):
        """End of the referential chain of an attribute (R113: a referential attribute refers to a base attribute)."""
        seen = set()
        while key in self.rattr and key not in seen:
            seen.add(key)
            r = self.rattr[key]
            key = (r['BAttr_ID'], r['BObj_ID'])
        return key

    def type_name(self, dt_id):
        seen = set()
        while dt_id not in seen:
            seen.add(dt_id)
            if dt_id in self.cdt:
                return CORE_TYPE.get(self.cdt[dt_id]['Core_Typ'])
            if dt_id in self.edt:
                return 'INTEGER'
            if dt_id in self.udt:
                dt_id = self.udt[dt_id]['CDT_DT_ID']
                continue
            return None
        return None

    def attr_type(self, key):
        b = self.attr.get(self.base_attr(key))
        return self.type_name(b['DT_ID']) if b else None

    # ---- classes ----
    def ordered_attrs(self, obj_id):
        ars = [d for d in self.t['O_ATTR'] if d['Obj_ID'] == obj_id]
        ids = set(d['Attr_ID'] for d in ars)
        nxt = dict((d['PAttr_ID'], d) for d in ars if d['PAttr_ID'] in ids)
        first = [d for d in ars if d['PAttr_ID'] not in ids]
        out = []
        cur = first[0] if first else None
        while cur is not None and len(out) <= len(ars):
            out.append(cur)
            cur = nxt.get(cur['Attr_ID'])
        return out

    def describe(self, comp_name=None, derived=False):
        comp_id = None
        if comp_name is not None:
            comp_id = self.component_id(comp_name)
            if comp_id is None:
                return None
        classes, identifiers, assocs = {}, {}, []
        present = {}
        for o in self.t['O_OBJ']:
            if not self.in_component(o['Obj_ID'], comp_id):
                continue
            kl = o['Key_Lett']
            attrs = []
            for a in self.ordered_attrs(o['Obj_ID']):
                key = (a['Attr_ID'], a['Obj_ID'])
                if key in self.dbattr and not derived:
                    continue
                ty = self.attr_type(key)
                if ty is None:
                    continue
                attrs.append([a['Name'], ty])
            classes[kl] = attrs
            present[kl] = set(n for n, _ in attrs)
            ids = {}
            for i in self.t['O_ID']:
                if i['Obj_ID'] != o['Obj_ID']:
                    continue
                oidas = [d for d in self.t['O_OIDA'] if d['Obj_ID'] == o['Obj_ID'] and d['Oid_ID'] == i['Oid_ID']]
                if not oidas:
                    continue
                if not derived and any((d['Attr_ID'], d['Obj_ID']) in self.dbattr for d in oidas):
                    continue
                ids['I%d' % (i['Oid_ID'] + 1)] = sorted(self.attr[(d['Attr_ID'], d['Obj_ID'])]['Name'] for d in oidas)
            if ids:
                identifiers[kl] = ids
        for r in self.t['R_REL']:
            if not self.in_component(r['Rel_ID'], comp_id):
                continue
            assocs.extend(self.rel_assocs(r))
        return dict(classes=classes, identifiers=identifiers, associations=sorted(assocs))

    # ---- relationships ----
    def keys(self, rel_id, rgo_oir, rto_oir):
        """Modeled [referential attribute, identifying attribute] pairs of one formalization: every O_REF row of the
        relationship between the referring (R_RGO) and the referred-to (R_RTO) class-in-relationship names the referential
        attribute (R108: O_RATTR/O_ATTR Attr_ID, Obj_ID) and the identifying attribute it refers to (R111: the O_RTIDA row
        RAttr_ID, RObj_ID, ROid_ID of the relationship, which R110 is the O_OIDA row of that identifier)."""
        pairs = []
        for d in self.t['O_REF']:
            if d['Rel_ID'] == rel_id and d['OIR_ID'] == rgo_oir and d['ROIR_ID'] == rto_oir:
                rtida = self.t.where('O_RTIDA', Attr_ID=d['RAttr_ID'], Obj_ID=d['RObj_ID'], Oid_ID=d['ROid_ID'], Rel_ID=rel_id,
                                     OIR_ID=rto_oir)
                oida = self.t.where('O_OIDA', Attr_ID=d['RAttr_ID'], Obj_ID=d['RObj_ID'], Oid_ID=d['ROid_ID'])
                if len(rtida) != 1 or len(oida) != 1 or (d['Attr_ID'], d['Obj_ID']) not in self.rattr:
                    self.dangling.append(['O_REF', d['Attr_ID'], d['RAttr_ID']])
                    continue
                ref = self.attr[(d['Attr_ID'], d['Obj_ID'])]['Name']
                ident = self.attr[(oida[0]['Attr_ID'], oida[0]['Obj_ID'])]['Name']
                pairs.append([ref, ident])
        return sorted(pairs)

    def kl(self, obj_id):
        return self.obj[obj_id]['Key_Lett']

    @staticmethod
    def card(mult, cond):
        return ('M' if mult else '1') + ('C' if cond else '')

    def rel_assocs(self, r):
        rel, rid = r['Rel_ID'], 'R%d' % r['Numb']
        t = self.t
        out = []
        if t.one('R_SIMP', Rel_ID=rel):
            form = t.one('R_FORM', Rel_ID=rel)
            part = t.one('R_PART', Rel_ID=rel)
            if form and part:
                refl = form['Obj_ID'] == part['Obj_ID']
                out.append([rid, self.kl(form['Obj_ID']), self.card(form['Mult'], form['Cond']), part['Txt_Phrs'] if refl else '',
                            self.kl(part['Obj_ID']), self.card(part['Mult'], part['Cond']), form['Txt_Phrs'] if refl else '',
                            self.keys(rel, form['OIR_ID'], part['OIR_ID'])])
        elif t.one('R_ASSOC', Rel_ID=rel):
            assr, aone, aoth = t.one('R_ASSR', Rel_ID=rel), t.one('R_AONE', Rel_ID=rel), t.one('R_AOTH', Rel_ID=rel)
            refl = aone['Obj_ID'] == aoth['Obj_ID']
            for near, far in ((aone, aoth), (aoth, aone)):
                # a link instance refers to exactly one instance at each end; an instance at the near end takes part in as
                # many links as there are instances at the far end
                out.append([rid, self.kl(assr['Obj_ID']), self.card(far['Mult'], far['Cond']), near['Txt_Phrs'] if refl else '',
                            self.kl(near['Obj_ID']), '1', far['Txt_Phrs'] if refl else '',
                            self.keys(rel, assr['OIR_ID'], near['OIR_ID'])])
        elif t.one('R_SUBSUP', Rel_ID=rel):
            sup = t.one('R_SUPER', Rel_ID=rel)
            for sub in t.where('R_SUB', Rel_ID=rel):
                out.append([rid, self.kl(sub['Obj_ID']), '1C', '', self.kl(sup['Obj_ID']), '1', '',
                            self.keys(rel, sub['OIR_ID'], sup['OIR_ID'])])
        return out


def describe(rows, comp_name=None, derived=False):
    return Walk(rows).describe(comp_name, derived)


def describe2(rows, comp_name=None, derived=False):
    """(description, well formed: every O_REF row has its O_RTIDA, O_OIDA and O_RATTR rows)."""
    w = Walk(rows)
    d = w.describe(comp_name, derived)
    return d, not w.dangling


# ------------------------------------------------------------------ reading what the code produced ------------------
_TABLE = re.compile(r'CREATE TABLE (\w+) \(\n(.*?)\n\);\n', re.S)
_ROP = re.compile(r"CREATE ROP REF_ID (R\d+) FROM (\w+) (\w+) \(([^)]*)\)(?: PHRASE '((?:[^']|'')*)')? "
                  r"TO (\w+) (\w+) \(([^)]*)\)(?: PHRASE '((?:[^']|'')*)')?;\n")
_INDEX = re.compile(r'CREATE UNIQUE INDEX (\w+) ON (\w+) \(([^)]*)\);\n')


def read_sql(text):
    """Description from schema text as xtuml.serialize_schema / serialize_unique_identifiers / persist_database write it."""
    classes, identifiers, assocs = {}, {}, []
    consumed = 0
    for m in _TABLE.finditer(text):
        body = m.group(2).strip()
        attrs = [a.strip().split(' ') for a in body.split(',\n')] if body else []
        classes[m.group(1)] = [[a[0], a[1]] for a in attrs]
        consumed += len(m.group(0))
    for m in _ROP.finditer(text):
        sk = [k.strip() for k in m.group(4).split(',') if k.strip()]
        tk = [k.strip() for k in m.group(8).split(',') if k.strip()]
        assocs.append([m.group(1), m.group(3), m.group(2), m.group(5) or '', m.group(7), m.group(6), m.group(9) or '',
                       sorted([a, b] for a, b in zip(sk, tk))] + ([['arity', len(sk), len(tk)]] if len(sk) != len(tk) else []))
        consumed += len(m.group(0))
    for m in _INDEX.finditer(text):
        identifiers.setdefault(m.group(2), {})[m.group(1)] = sorted(k.strip() for k in m.group(3).split(','))
        consumed += len(m.group(0))
    rest = len(text) - consumed
    return dict(classes=classes, identifiers=identifiers, associations=sorted(assocs)), rest


def diff(a, b):
    """Set of changed paths between two descriptions (as sorted list of [path, before, after])."""
    out = []
    for kl in sorted(set(a['classes']) | set(b['classes'])):
        if a['classes'].get(kl) != b['classes'].get(kl):
            out.append(['class ' + kl, a['classes'].get(kl), b['classes'].get(kl)])
    for kl in sorted(set(a['identifiers']) | set(b['identifiers'])):
        if a['identifiers'].get(kl) != b['identifiers'].get(kl):
            out.append(['identifiers ' + kl, a['identifiers'].get(kl), b['identifiers'].get(kl)])
    sa = [x for x in a['associations'] if x not in b['associations']]
    sb = [x for x in b['associations'] if x not in a['associations']]
    if sa or sb:
        out.append(['associations', sa, sb])
    return out
