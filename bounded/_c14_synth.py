"""Class models synthesised from abstract class diagrams (<= 3 classes, <= 3 relationships) and edit scripts.

A diagram (JSON):
  {'layout': 'L0'..'L4',
   'classes': [[name, key letters, [[attribute, type] ...], [derived attribute names], [second identifier attribute names]] ...],
   'rels': [['simple', numb, form kl, part kl, form mult, form cond, part mult, part cond, form phrase, part phrase],
            ['linked', numb, link kl, one kl, other kl, one mult, one cond, other mult, other cond, one phrase, other phrase],
            ['subsup', numb, super kl, [sub kl, ...]]]}
Every class gets `Id : unique_id` as first attribute and identifier I1 (subtypes and link classes: their referential
attributes).  Data types Colour (enumeration) and Len (user type on real) live in the top package.

Layouts (where the classes and relationships are packaged):
  L0  package P (no component)                         components: -
  L1  package Top > component C1 > package P1          components: C1
  L2  component C1 > package P1 : first connected group; component C2 > package P2 : the other groups
  L3  component C1 > package P1 : first group; P1 > component C2 > package P2 : the other groups (C2 nested in C1)
  L4  component C1 contains the first group directly (no package); package Out holds the others (outside any component)
"""
from . import _c14_rows as R

NAMES = [('Alpha', 'A'), ('Beta', 'B'), ('Gamma', 'C')]
PALETTE = ['integer', 'string', 'real', 'boolean', 'unique_id', 'Colour', 'Len', 'date', 'state<State_Model>', 'inst_ref<Object>']


def groups(diagram):
    """Connected groups of classes (key letters) under the relationships, in order of first appearance."""
    kls = [c[1] for c in diagram['classes']]
    parent = dict((k, k) for k in kls)

    def find(x):
        while parent[x] != x:
            x = parent[x]
        return x

    for r in diagram['rels']:
        members = rel_classes(r)
        for m in members[1:]:
            parent[find(m)] = find(members[0])
    out = []
    for k in kls:
        g = find(k)
        for grp in out:
            if find(grp[0]) == g:
                grp.append(k)
                break
        else:
            out.append([k])
    return out


def rel_classes(r):
    if r[0] == 'simple':
        return [r[2], r[3]]
    if r[0] == 'linked':
        return [r[2], r[3], r[4]]
    return [r[2]] + list(r[3])


def components_of(layout):
    return {'L0': [], 'L1': ['C1'], 'L2': ['C1', 'C2'], 'L3': ['C1', 'C2'], 'L4': ['C1']}[layout]


def build(diagram):
    b = R.Builder()
    layout = diagram['layout']
    grp = groups(diagram)
    first = set(grp[0]) if grp else set()
    top = b.package('Types')
    b.enum('Colour', ['Red', 'Green', 'Blue'], top)
    b.udt('Len', 'real', top)
    if layout == 'L0':
        p = b.package('P')
        home = lambda kl: p
    elif layout == 'L1':
        t = b.package('Top')
        c1 = b.component('C1', t)
        p1 = b.package('P1', c1)
        home = lambda kl: p1
    elif layout == 'L2':
        c1 = b.component('C1')
        p1 = b.package('P1', c1)
        c2 = b.component('C2')
        p2 = b.package('P2', c2)
        home = lambda kl: p1 if kl in first else p2
    elif layout == 'L3':
        c1 = b.component('C1')
        p1 = b.package('P1', c1)
        c2 = b.component('C2', p1)
        p2 = b.package('P2', c2)
        home = lambda kl: p1 if kl in first else p2
    elif layout == 'L4':
        c1 = b.component('C1')
        out = b.package('Out')
        home = lambda kl: c1 if kl in first else out
    else:
        raise ValueError(layout)
    for numb, (name, kl, attrs, derived, id2) in enumerate(diagram['classes']):
        b.clazz(name, kl, numb + 1, home(kl))
    # classes that are subtypes or link classes are identified by their referential attributes
    ref_identified = set()
    for r in diagram['rels']:
        if r[0] == 'linked':
            ref_identified.add(r[2])
        elif r[0] == 'subsup':
            ref_identified.update(r[3])
    for name, kl, attrs, derived, id2 in diagram['classes']:
        if kl not in ref_identified:
            b.attr(kl, 'Id', 'unique_id')
            b.identifier(kl, 0, ['Id'])
    # relationships in an order where referred identifiers exist: supertypes/ends before subtypes/links
    pending = list(diagram['rels'])
    guard = 0
    while pending and guard < 20:
        guard += 1
        for r in list(pending):
            if r[0] == 'simple':
                _, numb, fk, pk, fm, fc, pm, pc, fp, pp = r
                if 0 not in b.classes[pk]['ids']:
                    continue
                names = ['%s_%s_R%d' % (pk, n, numb) for n in b.classes[pk]['ids'][0]]
                b.simple(numb, fk, pk, names, (fm, fc), (pm, pc), (fp, pp), parent=home(fk))
            elif r[0] == 'linked':
                _, numb, lk, ok, tk, om, oc, tm, tc, op, tp = r
                if 0 not in b.classes[ok]['ids'] or 0 not in b.classes[tk]['ids']:
                    continue
                n1 = ['%s_%s_R%da' % (ok, n, numb) for n in b.classes[ok]['ids'][0]]
                n2 = ['%s_%s_R%db' % (tk, n, numb) for n in b.classes[tk]['ids'][0]]
                b.linked(numb, lk, ok, tk, n1, n2, (om, oc), (tm, tc), (op, tp), parent=home(lk))
                if 0 not in b.classes[lk]['ids']:
                    b.identifier(lk, 0, n1 + n2)
            else:
                _, numb, sk, subs = r
                if 0 not in b.classes[sk]['ids']:
                    continue
                lst = []
                for sub in subs:
                    lst.append((sub, ['%s_R%d' % (n, numb) for n in b.classes[sk]['ids'][0]]))
                b.subsup(numb, sk, lst, parent=home(sk))
                for sub, names in lst:
                    if 0 not in b.classes[sub]['ids']:
                        b.identifier(sub, 0, names)
            pending.remove(r)
    if pending:
        raise ValueError('cyclic identification: %r' % (pending,))
    for name, kl, attrs, derived, id2 in diagram['classes']:
        for an, ty in attrs:
            b.attr(kl, an, ty, derived='self.%s = 0;' % an if an in derived else None)
        if id2:
            b.identifier(kl, 1, id2)
    return b.rows


def well_formed(diagram):
    """Diagrams the builder can realise: every referred class is identified before it is referred to, relationships of
    a split layout stay inside their group (always true: groups are connected components)."""
    try:
        build(diagram)
        return True
    except (ValueError, KeyError, IndexError):
        return False


# ------------------------------------------------------------------ enumerators -------------------------------------------
def classes_for(n, variant=0):
    """n classes with attributes drawn from the palette in a fixed rotation."""
    out = []
    for i in range(n):
        name, kl = NAMES[i]
        a1 = PALETTE[(i * 3 + variant) % len(PALETTE)]
        a2 = PALETTE[(i * 3 + variant + 4) % len(PALETTE)]
        out.append([name, kl, [['X%d' % i, a1], ['Y%d' % i, a2]], [], []])
    return out


def single_relationship_diagrams():
    """Every shape with exactly one relationship, every multiplicity/conditionality combination."""
    bits = [(a, b, c, d) for a in (0, 1) for b in (0, 1) for c in (0, 1) for d in (0, 1)]
    for fm, fc, pm, pc in bits:
        yield dict(classes=classes_for(2), rels=[['simple', 1, 'A', 'B', fm, fc, pm, pc, 'has', 'is of']])
        yield dict(classes=classes_for(1), rels=[['simple', 2, 'A', 'A', fm, fc, pm, pc, 'follows', 'leads']])
        yield dict(classes=classes_for(3), rels=[['linked', 3, 'C', 'A', 'B', fm, fc, pm, pc, 'near', 'far']])
        yield dict(classes=classes_for(2), rels=[['linked', 4, 'B', 'A', 'A', fm, fc, pm, pc, 'left', 'right']])
    yield dict(classes=classes_for(2), rels=[['subsup', 5, 'A', ['B']]])
    yield dict(classes=classes_for(3), rels=[['subsup', 6, 'A', ['B', 'C']]])
    yield dict(classes=classes_for(3), rels=[])


def random_diagram(rng):
    n = rng.choice([1, 2, 3, 3])
    classes = []
    for i in range(n):
        name, kl = NAMES[i]
        attrs = [['X%d%d' % (i, j), rng.choice(PALETTE)] for j in range(rng.choice([0, 1, 2, 3]))]
        supported = [a for a, t in attrs if t in ('integer', 'string', 'real', 'boolean', 'Colour', 'Len')]
        derived = [a for a in supported if rng.random() < 0.25]
        id2 = [a for a in supported if rng.random() < 0.3][:2]
        classes.append([name, kl, attrs, derived, id2])
    kls = [c[1] for c in classes]
    rels = []
    ref_identified = set()
    for numb in range(1, rng.choice([1, 2, 3, 3]) + 1):
        kind = rng.choice(['simple', 'simple', 'linked', 'subsup'])
        bits = [rng.choice([0, 1]) for _ in range(4)]
        ph = [rng.choice(['', 'has', 'is of', 'leads', 'follows']) for _ in range(2)]
        if kind == 'simple':
            f, p = rng.choice(kls), rng.choice(kls)
            if f == p and ph[0] == ph[1]:
                ph = ['leads', 'follows']
            rels.append(['simple', numb, f, p] + bits + ph)
        elif kind == 'linked':
            cand = [k for k in kls if k not in ref_identified]
            if not cand:
                continue
            l = rng.choice(cand)
            others = [k for k in kls if k != l]
            if not others:
                continue
            o, t = rng.choice(others), rng.choice(others)
            if o == t and ph[0] == ph[1]:
                ph = ['left', 'right']
            rels.append(['linked', numb, l, o, t] + bits + ph)
            ref_identified.add(l)
        else:
            sup = rng.choice(kls)
            subs = [k for k in kls if k != sup and k not in ref_identified]
            if not subs:
                continue
            subs = subs[:rng.choice([1, 2])]
            rels.append(['subsup', numb, sup, subs])
            ref_identified.update(subs)
    return dict(classes=classes, rels=rels)
