"""Class models synthesised from abstract class diagrams (<= 3 classes, <= 3 relationships) and edit scripts.

A diagram (JSON):
  {'layout': 'L0'..'L4',
   'classes': [[name, key letters, [[attribute, type] ...], [derived attribute names], [second identifier attribute names]] ...],
   'rels': [['simple', numb, form kl, part kl, form mult, form cond, part mult, part cond, form phrase, part phrase],
            ['linked', numb, link kl, one kl, other kl, one mult, one cond, other mult, other cond, one phrase, other phrase],
            ['subsup', numb, super kl, [sub kl, ...]]]}
Every class gets `Id : unique_id` as first attribute and identifier I1 (subtypes and link classes: their referential
attributes).  Data types Colour (enumeration) and Len (user type on real) live in the top package.

Optional keys (compound identifiers, renamed referential attributes, storage order):
   'ids':    {key letters: [[attribute, type], ...]}   attributes of identifier I1 of a class that is not a subtype or link
             class, in declared order (default [['Id', 'unique_id']])
   'naming': {tag: mode}   names of the referential attributes of one formalization; tag = 'R<n>' (simple), 'R<n>a' / 'R<n>b'
             (link class -> one / other end), 'R<n>/<sub key letters>' (subtype).  mode 'keep': the names of the identifying
             attributes they refer to (prefixed with Via<tag>_ where the class already has that name); mode k (integer): the
             referential attribute that refers to the identifying attribute of alphabetical rank i is named with the pool name
             of rank p[i], p = k-th permutation (itertools order, k modulo n!) -- k = 0: the two alphabetical orders agree,
             k = n!-1: one is the reverse of the other, else they disagree.  Without entry: <kl>_<identifying name>_R<n>.
   'store':  {row kind: 'rev' | 'rot' | 'swap'}   the rows of that kind (O_REF, O_RTIDA, O_OIDA, O_RATTR, O_ATTR ...) are
             stored in reversed / rotated-by-one / pairwise-swapped order (at the places rows of that kind have in the file)

Layouts (where the classes and relationships are packaged):
  L0  package P (no component)                         components: -
  L1  package Top > component C1 > package P1          components: C1
  L2  component C1 > package P1 : first connected group; component C2 > package P2 : the other groups
  L3  component C1 > package P1 : first group; P1 > component C2 > package P2 : the other groups (C2 nested in C1)
  L4  component C1 contains the first group directly (no package); package Out holds the others (outside any component)
"""
import itertools

from . import _c14_rows as R

NAMES = [('Alpha', 'A'), ('Beta', 'B'), ('Gamma', 'C')]
PALETTE = ['integer', 'string', 'real', 'boolean', 'unique_id', 'Colour', 'Len', 'date', 'state<State_Model>', 'inst_ref<Object>']


def groups(diagram):
    """Connected groups of classes (key letters) under the relationships, in order of first appearance."""
    kls = [c[1] for c in diagram['classes']]
    parent = dict((k, k) for k in kls)

    def find(x):
        while parent[x] != x:
            x = parent[x]
        return x

    for r in diagram['rels']:
        members = rel_classes(r)
        for m in members[1:]:
            parent[find(m)] = find(members[0])
    out = []
    for k in kls:
        g = find(k)
        for grp in out:
            if find(grp[0]) == g:
                grp.append(k)
                break
        else:
            out.append([k])
    return out


def rel_classes(r):
    if r[0] == 'simple':
        return [r[2], r[3]]
    if r[0] == 'linked':
        return [r[2], r[3], r[4]]
    return [r[2]] + list(r[3])


def components_of(layout):
    return {'L0': [], 'L1': ['C1'], 'L2': ['C1', 'C2'], 'L3': ['C1', 'C2'], 'L4': ['C1']}[layout]


def build(diagram):
    b = R.Builder()
    layout = diagram['layout']
    grp = groups(diagram)
    first = set(grp[0]) if grp else set()
    top = b.package('Types')
    b.enum('Colour', ['Red', 'Green', 'Blue'], top)
    b.udt('Len', 'real', top)
    if layout == 'L0':
        p = b.package('P')
        home = lambda kl: p
    elif layout == 'L1':
        t = b.package('Top')
        c1 = b.component('C1', t)
        p1 = b.package('P1', c1)
        home = lambda kl: p1
    elif layout == 'L2':
        c1 = b.component('C1')
        p1 = b.package('P1', c1)
        c2 = b.component('C2')
        p2 = b.package('P2', c2)
        home = lambda kl: p1 if kl in first else p2
    elif layout == 'L3':
        c1 = b.component('C1')
        p1 = b.package('P1', c1)
        c2 = b.component('C2', p1)
        p2 = b.package('P2', c2)
        home = lambda kl: p1 if kl in first else p2
    elif layout == 'L4':
        c1 = b.component('C1')
        out = b.package('Out')
        home = lambda kl: c1 if kl in first else out
    else:
        raise ValueError(layout)
    for numb, (name, kl, attrs, derived, id2) in enumerate(diagram['classes']):
        b.clazz(name, kl, numb + 1, home(kl))
    # classes that are subtypes or link classes are identified by their referential attributes
    ref_identified = set()
    for r in diagram['rels']:
        if r[0] == 'linked':
            ref_identified.add(r[2])
        elif r[0] == 'subsup':
            ref_identified.update(r[3])
    ids_spec = diagram.get('ids') or {}
    naming = diagram.get('naming') or {}
    for name, kl, attrs, derived, id2 in diagram['classes']:
        if kl not in ref_identified:
            spec = ids_spec.get(kl) or [['Id', 'unique_id']]
            for an, ty in spec:
                b.attr(kl, an, ty)
            b.identifier(kl, 0, [an for an, _ in spec])
    # relationships in an order where referred identifiers exist: supertypes/ends before subtypes/links
    pending = list(diagram['rels'])
    guard = 0
    while pending and guard < 20:
        guard += 1
        for r in list(pending):
            if r[0] == 'simple':
                _, numb, fk, pk, fm, fc, pm, pc, fp, pp = r
                if 0 not in b.classes[pk]['ids']:
                    continue
                names = ref_names(b, naming, 'R%d' % numb, fk, pk, ['%s_%s_R%d' % (pk, n, numb) for n in b.classes[pk]['ids'][0]])
                b.simple(numb, fk, pk, names, (fm, fc), (pm, pc), (fp, pp), parent=home(fk))
            elif r[0] == 'linked':
                _, numb, lk, ok, tk, om, oc, tm, tc, op, tp = r
                if 0 not in b.classes[ok]['ids'] or 0 not in b.classes[tk]['ids']:
                    continue
                n1 = ref_names(b, naming, 'R%da' % numb, lk, ok, ['%s_%s_R%da' % (ok, n, numb) for n in b.classes[ok]['ids'][0]])
                n2 = ref_names(b, naming, 'R%db' % numb, lk, tk, ['%s_%s_R%db' % (tk, n, numb) for n in b.classes[tk]['ids'][0]], n1)
                b.linked(numb, lk, ok, tk, n1, n2, (om, oc), (tm, tc), (op, tp), parent=home(lk))
                if 0 not in b.classes[lk]['ids']:
                    b.identifier(lk, 0, n1 + n2)
            else:
                _, numb, sk, subs = r
                if 0 not in b.classes[sk]['ids']:
                    continue
                lst = []
                for sub in subs:
                    lst.append((sub, ref_names(b, naming, 'R%d/%s' % (numb, sub), sub, sk,
                                               ['%s_R%d' % (n, numb) for n in b.classes[sk]['ids'][0]])))
                b.subsup(numb, sk, lst, parent=home(sk))
                for sub, names in lst:
                    if 0 not in b.classes[sub]['ids']:
                        b.identifier(sub, 0, names)
            pending.remove(r)
    if pending:
        raise ValueError('cyclic identification: %r' % (pending,))
    for name, kl, attrs, derived, id2 in diagram['classes']:
        for an, ty in attrs:
            b.attr(kl, an, ty, derived='self.%s = 0;' % an if an in derived else None)
        if id2:
            b.identifier(kl, 1, id2)
    for c in b.classes.values():
        names = [a['name'] for a in c['attrs']]
        if len(set(names)) != len(names):
            raise ValueError('attribute name used twice in %s: %r' % (c['kl'], names))
    store_rows(b.rows, diagram.get('store') or {})
    return b.rows


def pool_name(rank, tag):
    """Names whose alphabetical order is the order of their ranks (AA_<tag> < DD_<tag> < GG_<tag> ...)."""
    return '%s_%s' % (chr(ord('A') + 3 * rank) * 2, tag.replace('/', '_'))


def ref_names(b, naming, tag, from_kl, to_kl, default, also_taken=()):
    """Names of the referential attributes of from_kl that refer to identifier I1 of to_kl (one per identifying attribute,
    in the declared order of the identifier)."""
    mode = naming.get(tag)
    if mode is None:
        return default
    idents = b.classes[to_kl]['ids'][0]
    if mode == 'keep':
        taken = set(a['name'] for a in b.classes[from_kl]['attrs']) | set(also_taken)
        return [i if i not in taken else 'Via%s_%s' % (tag.replace('/', '_'), i) for i in idents]
    n = len(idents)
    if n > 8:
        raise ValueError('identifier too long')
    count = 1
    for i in range(2, n + 1):
        count *= i
    perm = next(itertools.islice(itertools.permutations(range(n)), int(mode) % count, None))
    srt = sorted(idents)
    return [pool_name(perm[srt.index(i)], tag) for i in idents]


def store_rows(rows, store):
    for kind in sorted(store):
        mode = store[kind]
        at = [i for i, r in enumerate(rows) if r.kind == kind]
        sel = [rows[i] for i in at]
        if mode == 'rev':
            sel.reverse()
        elif mode == 'rot':
            sel = sel[1:] + sel[:1]
        elif mode == 'swap':
            for j in range(0, len(sel) - 1, 2):
                sel[j], sel[j + 1] = sel[j + 1], sel[j]
        else:
            raise ValueError(mode)
        for i, r in zip(at, sel):
            rows[i] = r


def well_formed(diagram):
    """Diagrams the builder can realise: every referred class is identified before it is referred to, relationships of
    a split layout stay inside their group (always true: groups are connected components)."""
    try:
        build(diagram)
        return True
    except (ValueError, KeyError, IndexError):
        return False


# ------------------------------------------------------------------ enumerators -------------------------------------------
def classes_for(n, variant=0):
    """n classes with attributes drawn from the palette in a fixed rotation."""
    out = []
    for i in range(n):
        name, kl = NAMES[i]
        a1 = PALETTE[(i * 3 + variant) % len(PALETTE)]
        a2 = PALETTE[(i * 3 + variant + 4) % len(PALETTE)]
        out.append([name, kl, [['X%d' % i, a1], ['Y%d' % i, a2]], [], []])
    return out


def single_relationship_diagrams():
    """Every shape with exactly one relationship, every multiplicity/conditionality combination."""
    bits = [(a, b, c, d) for a in (0, 1) for b in (0, 1) for c in (0, 1) for d in (0, 1)]
    for fm, fc, pm, pc in bits:
        yield dict(classes=classes_for(2), rels=[['simple', 1, 'A', 'B', fm, fc, pm, pc, 'has', 'is of']])
        yield dict(classes=classes_for(1), rels=[['simple', 2, 'A', 'A', fm, fc, pm, pc, 'follows', 'leads']])
        yield dict(classes=classes_for(3), rels=[['linked', 3, 'C', 'A', 'B', fm, fc, pm, pc, 'near', 'far']])
        yield dict(classes=classes_for(2), rels=[['linked', 4, 'B', 'A', 'A', fm, fc, pm, pc, 'left', 'right']])
    yield dict(classes=classes_for(2), rels=[['subsup', 5, 'A', ['B']]])
    yield dict(classes=classes_for(3), rels=[['subsup', 6, 'A', ['B', 'C']]])
    yield dict(classes=classes_for(3), rels=[])


ID_NAMES = ['Row_%s', 'Bay_%s', 'Col_%s']      # declared order differs from the alphabetical one for 2 and for 3 attributes
ID_TYPES = ['integer', 'string', 'unique_id', 'real']


def id_spec(kl, n, variant=0):
    """Compound identifier of n attributes for class kl: Row_<kl>, Col_<kl> (n = 2) / Row_<kl>, Bay_<kl>, Col_<kl> (n = 3)."""
    names = [ID_NAMES[0], ID_NAMES[2]] if n == 2 else ID_NAMES[:n]
    return [[nm % kl, ID_TYPES[(i + variant) % len(ID_TYPES)]] for i, nm in enumerate(names)]


def naming_modes(n):
    """'keep' and every permutation index of n ranks (0: orders agree ... n!-1: reversed)."""
    count = 1
    for i in range(2, n + 1):
        count *= i
    return ['keep'] + list(range(count))


def compound_key_diagrams(sizes=(2, 3)):
    """Every relationship kind formalised over a compound identifier of 2 / 3 attributes x every naming mode of the
    referential attributes.  Relationships with two formalizations (both ends of a link class, two subtypes, chains) take
    the next mode (cyclically) for the second one, so every mode occurs on every side.  Mult/Cond rotate over the 16
    combinations."""
    count = 0
    for n in sizes:
        modes = naming_modes(n)
        for mi, mode in enumerate(modes):
            other = modes[(mi + 1) % len(modes)]
            third = modes[(mi + 2) % len(modes)]
            shapes = [
                ('simple', 2, {'B': id_spec('B', n)},
                 [['simple', 1, 'A', 'B', 0, 0, 0, 0, 'has', 'is of']], {'R1': mode}),
                ('reflexive', 1, {'A': id_spec('A', n, 1)},
                 [['simple', 2, 'A', 'A', 0, 0, 0, 0, 'follows', 'leads']], {'R2': mode}),
                ('linked', 3, {'A': id_spec('A', n), 'B': id_spec('B', n, 2)},
                 [['linked', 3, 'C', 'A', 'B', 0, 0, 0, 0, 'near', 'far']], {'R3a': mode, 'R3b': other}),
                ('linked-reflexive', 2, {'A': id_spec('A', n, 1)},
                 [['linked', 4, 'B', 'A', 'A', 0, 0, 0, 0, 'left', 'right']], {'R4a': mode, 'R4b': other}),
                ('subtype', 2, {'A': id_spec('A', n)},
                 [['subsup', 5, 'A', ['B']]], {'R5/B': mode}),
                ('subtypes', 3, {'A': id_spec('A', n, 3)},
                 [['subsup', 6, 'A', ['B', 'C']]], {'R6/B': mode, 'R6/C': other}),
                ('subtype-chain', 3, {'A': id_spec('A', n, 2)},
                 [['subsup', 5, 'A', ['B']], ['simple', 1, 'C', 'B', 0, 0, 0, 0, '', '']], {'R5/B': other, 'R1': mode}),
                ('subtype-of-subtype', 3, {'A': id_spec('A', n, 1)},
                 [['subsup', 5, 'A', ['B']], ['subsup', 6, 'B', ['C']]], {'R5/B': mode, 'R6/C': third}),
            ]
            if n == 2:
                # the identifier of a link class between two singly identified classes is compound, too
                shapes.append(('link-referred', 3, {},
                               [['linked', 3, 'C', 'A', 'B', 0, 0, 0, 0, 'near', 'far'], ['simple', 1, 'A', 'C', 0, 0, 0, 0, '', '']],
                               {'R1': mode}))
                shapes.append(('link-referred-renamed', 3, {'A': [['Key', 'integer']], 'B': [['Code', 'string']]},
                               [['linked', 3, 'C', 'A', 'B', 0, 0, 0, 0, 'near', 'far'], ['simple', 1, 'B', 'C', 0, 0, 0, 0, '', '']],
                               {'R3a': other, 'R3b': mode, 'R1': mode}))
            for shape, ncls, ids, rels, naming in shapes:
                rels = [list(r) for r in rels]
                for r in rels:
                    if r[0] in ('simple', 'linked'):
                        at = 4 if r[0] == 'simple' else 5
                        for j in range(4):
                            r[at + j] = (count >> j) & 1
                        count += 1
                yield dict(shape=shape, classes=classes_for(ncls), ids=ids, rels=rels, naming=naming)


def random_compound(rng, diagram):
    """Widens a random diagram: identifiers of 1-3 attributes, naming modes and storage orders."""
    ids, naming, store = {}, {}, {}
    for name, kl, attrs, derived, id2 in diagram['classes']:
        n = rng.choice([1, 2, 2, 3])
        if n > 1:
            ids[kl] = id_spec(kl, n, rng.randrange(4))
    for r in diagram['rels']:
        if r[0] == 'simple':
            tags = ['R%d' % r[1]]
        elif r[0] == 'linked':
            tags = ['R%da' % r[1], 'R%db' % r[1]]
        else:
            tags = ['R%d/%s' % (r[1], sub) for sub in r[3]]
        for t in tags:
            if rng.random() < 0.75:
                naming[t] = rng.choice(['keep', 0, 1, 2, 3, 4, 5, rng.randrange(720)])
    for kind in ('O_REF', 'O_RTIDA', 'O_OIDA', 'O_RATTR', 'O_ATTR'):
        if rng.random() < 0.3:
            store[kind] = rng.choice(['rev', 'rot', 'swap'])
    return dict(diagram, ids=ids, naming=naming, store=store)


def random_diagram(rng):
    n = rng.choice([1, 2, 3, 3])
    classes = []
    for i in range(n):
        name, kl = NAMES[i]
        attrs = [['X%d%d' % (i, j), rng.choice(PALETTE)] for j in range(rng.choice([0, 1, 2, 3]))]
        supported = [a for a, t in attrs if t in ('integer', 'string', 'real', 'boolean', 'Colour', 'Len')]
        derived = [a for a in supported if rng.random() < 0.25]
        id2 = [a for a in supported if rng.random() < 0.3][:2]
        classes.append([name, kl, attrs, derived, id2])
    kls = [c[1] for c in classes]
    rels = []
    ref_identified = set()
    for numb in range(1, rng.choice([1, 2, 3, 3]) + 1):
        kind = rng.choice(['simple', 'simple', 'linked', 'subsup'])
        bits = [rng.choice([0, 1]) for _ in range(4)]
        ph = [rng.choice(['', 'has', 'is of', 'leads', 'follows']) for _ in range(2)]
        if kind == 'simple':
            f, p = rng.choice(kls), rng.choice(kls)
            if f == p and ph[0] == ph[1]:
                ph = ['leads', 'follows']
            rels.append(['simple', numb, f, p] + bits + ph)
        elif kind == 'linked':
            cand = [k for k in kls if k not in ref_identified]
            if not cand:
                continue
            l = rng.choice(cand)
            others = [k for k in kls if k != l]
            if not others:
                continue
            o, t = rng.choice(others), rng.choice(others)
            if o == t and ph[0] == ph[1]:
                ph = ['left', 'right']
            rels.append(['linked', numb, l, o, t] + bits + ph)
            ref_identified.add(l)
        else:
            sup = rng.choice(kls)
            subs = [k for k in kls if k != sup and k not in ref_identified]
            if not subs:
                continue
            subs = subs[:rng.choice([1, 2])]
            rels.append(['subsup', numb, sup, subs])
            ref_identified.update(subs)
    return dict(classes=classes, rels=rels)
