"""Seed model for C06: a component with classes, relationships, callable elements and data types, written as .xtuml rows
(the way BridgePoint persists it) and loaded through the real loader next to the predefined globals.

  component Comp > package Pkg:
    enumeration Colour {Red, Green, Blue}; user type Len (real); constants CONSTS {MAX:integer, GREETING:string, RATIO:real}
    class A  (Id unique_id, N integer, Name string, Flag boolean, R real, Col Colour, D integer derived, Next_Id -> A.Id over R3)
    class B  (Id unique_id, A_Id -> A.Id over R1, Count integer)
    class L  (A_Id2 -> A.Id, B_Id2 -> B.Id over R2, Weight real)               link class of R2; no inst_ref data types
    R1  B (many, conditional) -> A (one)                 simple
    R2  A (one side, *) -- B (other side, 1) using L    linked
    R3  A 'follows' / 'leads' A                          reflexive simple (0..1 : 0..1)
    inst_ref<A>, inst_ref_set<A>, inst_ref<B>, inst_ref_set<B>   (S_IRDT); none for L -> generic inst_ref<Object>
    functions  home_f(void) home_fi(integer) : (pi integer, ps string, pb boolean, pr real, pa inst_ref<A>)
               fi(a integer, b integer):integer  fb(s string):boolean  fr():real  fv(x real, n integer, t string):void  f0():void
    external entity EE: bridges home_b(void; pi, ps, pb, pr)  bi(p integer, q string):integer  bs():string  bv(msg string, lvl integer):void
    operations of A: home_o (instance, integer; oi integer, ob boolean)  home_c (class based, void; ci integer)
               op_i(k integer):integer  op_b():boolean  op_v(u boolean, w integer):void   (instance based)
               cop_s():string  cop_v(z integer):void                                          (class based)
    derived attribute A.D : the fourth home
"""
from . import _c14_rows as R

HOME_PARAMS = [('pi', 'integer'), ('ps', 'string'), ('pb', 'boolean'), ('pr', 'real')]

ATTRS = {
    'A': [('Id', 'unique_id'), ('N', 'integer'), ('Name', 'string'), ('Flag', 'boolean'), ('R', 'real'), ('Col', 'Colour'),
          ('D', 'integer'), ('Next_Id', 'unique_id')],
    'B': [('Id', 'unique_id'), ('Count', 'integer'), ('A_Id', 'unique_id')],
    'L': [('Weight', 'real'), ('A_Id2', 'unique_id'), ('B_Id2', 'unique_id')],
}
WRITABLE = {'A': ['N', 'Name', 'Flag', 'R', 'Col'], 'B': ['Count'], 'L': ['Weight']}
HAS_IRDT = {'A': True, 'B': True, 'L': False}

# navigation steps: (from class, relationship, to class, phrase or None, to-many?)
STEPS = [
    ('A', 'R1', 'B', None, True), ('B', 'R1', 'A', None, False),
    ('A', 'R2', 'B', None, True), ('B', 'R2', 'A', None, False),
    ('A', 'R2', 'L', None, True), ('B', 'R2', 'L', None, False), ('L', 'R2', 'A', None, False), ('L', 'R2', 'B', None, False),
    ('A', 'R3', 'A', "'follows'", False), ('A', 'R3', 'A', "'leads'", False),
]
# relate forms: (from class, to class, relationship, phrase or None, using class or None)
RELATES = [
    ('B', 'A', 'R1', None, None), ('A', 'B', 'R1', None, None),
    ('A', 'A', 'R3', "'follows'", None), ('A', 'A', 'R3', "'leads'", None),
    ('A', 'B', 'R2', None, 'L'), ('B', 'A', 'R2', None, 'L'),
]
FUNCTIONS = {   # name -> (return type, [(param, type)])
    'fi': ('integer', [('a', 'integer'), ('b', 'integer')]),
    'fb': ('boolean', [('s', 'string')]),
    'fr': ('real', []),
    'fv': ('void', [('x', 'real'), ('n', 'integer'), ('t', 'string')]),
    'f0': ('void', []),
}
BRIDGES = {
    'bi': ('integer', [('p', 'integer'), ('q', 'string')]),
    'bs': ('string', []),
    'bv': ('void', [('msg', 'string'), ('lvl', 'integer')]),
}
INSTANCE_OPS = {
    'op_i': ('integer', [('k', 'integer')]),
    'op_b': ('boolean', []),
    'op_v': ('void', [('u', 'boolean'), ('w', 'integer')]),
}
CLASS_OPS = {
    'cop_s': ('string', []),
    'cop_v': ('void', [('z', 'integer')]),
}
ENUM = ('Colour', ['Red', 'Green', 'Blue'])
CONSTS = [('MAX', 'integer', '10'), ('GREETING', 'string', 'hello'), ('RATIO', 'real', '0.5')]

# homes: name -> (kind, return type, params, has self)
HOMES = {
    'function': ('S_SYNC', 'void', HOME_PARAMS + [('pa', 'inst_ref<A>')], False),
    'function_int': ('S_SYNC', 'integer', HOME_PARAMS + [('pa', 'inst_ref<A>')], False),
    'bridge': ('S_BRG', 'void', HOME_PARAMS, False),
    'operation': ('O_TFR', 'integer', [('oi', 'integer'), ('ob', 'boolean')], True),
    'class_operation': ('O_TFR', 'void', [('ci', 'integer')], False),
    'derived_attribute': ('O_DBATTR', None, [], True),
}
HOME_NAMES = {'function': 'home_f', 'function_int': 'home_fi', 'bridge': 'home_b', 'operation': 'home_o',
              'class_operation': 'home_c', 'derived_attribute': 'D'}

_TEXT = None


def model_text():
    global _TEXT
    if _TEXT is not None:
        return _TEXT
    b = R.Builder(tag=0xc06)
    comp = b.component('Comp')
    pkg = b.package('Pkg', comp)
    b.enum(ENUM[0], ENUM[1], pkg)
    b.udt('Len', 'real', pkg)
    b.constants('CONSTS', CONSTS, pkg)
    b.clazz('A', 'A', 1, pkg)
    b.clazz('B', 'B', 2, pkg)
    b.clazz('L', 'L', 3, pkg)
    b.attr('A', 'Id', 'unique_id')
    b.identifier('A', 0, ['Id'])
    for n, t in ATTRS['A'][1:6]:
        b.attr('A', n, t)
    b.attr('A', 'D', 'integer', derived='')
    b.attr('B', 'Id', 'unique_id')
    b.identifier('B', 0, ['Id'])
    b.attr('B', 'Count', 'integer')
    b.attr('L', 'Weight', 'real')
    b.simple(1, 'B', 'A', ['A_Id'], form=(1, 1), part=(0, 0), parent=pkg)
    b.linked(2, 'L', 'A', 'B', ['A_Id2'], ['B_Id2'], one=(0, 1), oth=(1, 1), parent=pkg)
    b.identifier('L', 0, ['A_Id2', 'B_Id2'])
    b.simple(3, 'A', 'A', ['Next_Id'], form=(0, 1), part=(0, 1), phrases=('leads', 'follows'), parent=pkg)
    b.irdt('A', pkg)
    b.irdt('B', pkg)
    for home in ('function', 'function_int'):
        b.function(HOME_NAMES[home], HOMES[home][1], HOMES[home][2], pkg)
    for name, (ret, params) in FUNCTIONS.items():
        b.function(name, ret, params, pkg)
    ee = b.ee('External', 'EE', pkg)
    b.bridge(ee, 'home_b', 'void', HOMES['bridge'][2])
    for name, (ret, params) in BRIDGES.items():
        b.bridge(ee, name, ret, params)
    b.operation('A', 'home_o', 'integer', HOMES['operation'][2], True)
    b.operation('A', 'home_c', 'void', HOMES['class_operation'][2], False)
    for name, (ret, params) in INSTANCE_OPS.items():
        b.operation('A', name, ret, params, True)
    for name, (ret, params) in CLASS_OPS.items():
        b.operation('A', name, ret, params, False)
    _TEXT = R.print_rows(b.rows)
    return _TEXT


def home_instance(m, home):
    """The instance whose Action_Semantics_internal is the program."""
    from xtuml import where_eq
    kind = HOMES[home][0]
    name = HOME_NAMES[home]
    if kind == 'O_DBATTR':
        from xtuml import navigate_one as one
        for d in m.select_many('O_DBATTR'):
            if one(d).O_BATTR[107].O_ATTR[106]().Name == name:
                return d
        raise KeyError(name)
    return m.select_any(kind, where_eq(Name=name))
