"""C06 (bounded tier) -- prebuilt instances form a well-formed, correctly typed population.

A case is (action home, generator seed, size, forced statement kinds [, reuse, skeleton]): bounded/_c06_gen.py generates a
well-formed, name-resolved OAL program over the seed model of bounded/_c06_model.py together with the facts the property
speaks about (computed from the generator's own tree and printed text).  The real `prebuild_action` runs on a fresh copy of
the model and the instances it created are inspected.  `reuse`: probability with which a new variable is named like a variable
of a block that has ended (one name, several variables, other types); `skeleton`: prescribed block structure with prescribed
declarations and uses of named variables (item scopes), everything else generated as usual.

Clauses
  prebuild-raises                        prebuild_action raised on a well-formed program
  multiplicity                           an association constraint of the ooaofooa schema is violated by/at a created instance
  uniqueness                             an identifier of a created instance is null or duplicated
  statement-subtype / value-subtype      a created ACT_SMT / V_VAL has not exactly one subtype (R603 / R801)
  statement-position                     no ACT_SMT at the line/column of a statement, or wrong EndPosition (elif/else: line only)
  statement-kind                         the subtype is not the one the statement form denotes
  statement-block                        members of one statement list are in different blocks / two lists share a block
  r661-neighbours                        previous-statement references do not link exactly the neighbours in source order
  r661-previous-designates-predecessor   ... and Previous_Statement_ID of the k-th member designates the (k-1)-th, none for the first
  r816-neighbours / r816-next-designates-successor     same for V_PAR.Next_Value_ID of the parameters of an invocation
  r604-chain                             ACT_LNK of a select-related, read from R637 along Next_Link_ID, are the steps in source order
  variable-block                         a declared variable is not exactly one V_VAR related (R823) to the block that declares it (one
                                         name may be declared by several blocks: nested and sibling blocks, after a block has ended);
                                         a V_VAR of a declared name in a block that does not declare it; the variable a variable value
                                         designates (R805 / R808 / R809) belongs to another block than the one declaring the name there
  value-structure                        an operand / parameter / condition value of the statement cannot be reached
  value-type                             V_VAL related (R820) to another data type than the expression has under OAL typing
"""
import vlib.fresh_ply  # noqa: F401
import itertools
import random
import traceback

from vlib.bounded import item

from . import _c06_gen as G
from . import _c06_model as M
from . import _c14_rows as R

HOMES = ['function', 'bridge', 'operation', 'derived_attribute', 'function_int', 'class_operation']
KINDS = ['assign', 'assign_attr', 'assign_inst', 'create', 'create_nv', 'delete', 'select_from', 'select_from_where', 'select_related',
         'select_related_where', 'relate', 'unrelate', 'relate_phrase', 'unrelate_phrase', 'relate_using', 'unrelate_using', 'call',
         'call_iop', 'call_value', 'control', 'return', 'if', 'while', 'for']


# ------------------------------------------------------------------ model access -------------------------------------------------
def nav(inst, kind, rel, phrase=''):
    import xtuml
    if inst is None:
        return None
    return xtuml.navigate_one(inst).nav(kind, rel, phrase)()


def nav_many(inst, kind, rel, phrase=''):
    import xtuml
    return list(xtuml.navigate_many(inst).nav(kind, rel, phrase)())


_SCHEMA = {}


def schema():
    """The constraints of the ooaofooa schema, read from its text (bridgepoint.schema: data, not code under test):
    rops [(rel, source card, source kind, source phrase, target card, target kind, target phrase)], indices
    {kind: {name: [attributes]}}, types {kind: {ATTRIBUTE: TYPE}}, subtypes {rel: {supertype kind: [subtype kinds]}}."""
    if _SCHEMA:
        return _SCHEMA
    import re
    from bridgepoint import schema as sch
    rops = []
    pat = re.compile(r"CREATE ROP REF_ID (R\d+)\s+FROM (\w+) (\w+) \(([^)]*)\)(?: PHRASE '([^']*)')?\s+"
                     r"TO (\w+) (\w+) \(([^)]*)\)(?: PHRASE '([^']*)')?;")
    for m in pat.finditer(sch.associations):
        rops.append((m.group(1), m.group(2), m.group(3), m.group(5) or '', m.group(6), m.group(7), m.group(9) or ''))
    assert len(rops) == sch.associations.count('CREATE ROP')
    indices = {}
    for m in re.finditer(r'CREATE UNIQUE INDEX (\w+) ON (\w+) \(([^)]*)\);', sch.indices):
        indices.setdefault(m.group(2), {})[m.group(1)] = [a.strip() for a in m.group(3).split(',')]
    types = {}
    for m in re.finditer(r'CREATE TABLE (\w+)\s*\((.*?)\);', sch.classes, re.S):
        types[m.group(1)] = dict((c.split()[0].upper(), c.split()[1].upper()) for c in m.group(2).split(',') if c.strip())
    subs = {}
    for rel, sc, sk, sp, tc, tk, tp in rops:
        subs.setdefault(rel, {}).setdefault(tk, []).append(sk)
    _SCHEMA.update(rops=rops, indices=indices, types=types, subtypes=subs)
    return _SCHEMA


def subtypes(inst, rel):
    """Instances related to a supertype instance across a subtype association (R603 / R801)."""
    out = []
    for k in schema()['subtypes'][rel][kind_of(inst)]:
        x = nav(inst, k, int(rel[1:]))
        if x is not None:
            out.append(x)
    return out


def kind_of(inst):
    import xtuml
    return xtuml.get_metaclass(inst).kind


def constraint_violations(m):
    """{(kind, position of the instance among its kind, rel, target kind, phrase, 'none'|'many')}: association ends of the
    schema whose multiplicity or conditionality does not hold for an instance (full scan; used once for the seed model)."""
    out = set()

    def check(kind, rel, to_kind, phrase, card):
        for idx, inst in enumerate(m.select_many(kind)):
            n = len(nav_many(inst, to_kind, int(rel[1:]), phrase))
            if n < 1 and 'C' not in card:
                out.add((kind, idx, rel, to_kind, phrase, 'none'))
            elif n > 1 and 'M' not in card:
                out.add((kind, idx, rel, to_kind, phrase, 'many'))

    for rel, sc, sk, sp, tc, tk, tp in schema()['rops']:
        check(sk, rel, tk, sp, tc)      # from the referring (source) instance to the target end
        check(tk, rel, sk, tp, sc)      # and back
    return out


_BASE = {}


def seed_violations():
    """Constraint violations of the seed model before any prebuild (they do not count)."""
    if 'v' not in _BASE:
        _BASE['v'] = constraint_violations(R.load(M.model_text()))
    return _BASE['v']


def stable_keys(m):
    keys, count = {}, {}
    for i in m.instances:
        k = kind_of(i)
        keys[id(i)] = (k, count.get(k, 0))
        count[k] = count.get(k, 0) + 1
    return keys


def new_constraint_violations(m, old_keys, new):
    """Violations at created instances, and upper-bound violations at pre-existing instances they were related to, that
    the seed model did not have.  (A lower-bound violation cannot appear at a pre-existing instance: nothing pre-existing is unrelated.)"""
    if 'by_kind' not in _BASE:
        by = {}
        for rel, sc, sk, sp, tc, tk, tp in schema()['rops']:
            by.setdefault(sk, []).append((rel, tk, sp, tc, tp, sc))
            by.setdefault(tk, []).append((rel, sk, tp, sc, sp, tc))
        _BASE['by_kind'] = by
    base = seed_violations()
    out = set()
    for x in new:
        kx = kind_of(x)
        for rel, to_kind, phrase, card, back_phrase, back_card in _BASE['by_kind'].get(kx, []):
            ys = nav_many(x, to_kind, int(rel[1:]), phrase)
            if len(ys) < 1 and 'C' not in card:
                out.add((kx, rel, to_kind, phrase, 'none'))
            elif len(ys) > 1 and 'M' not in card:
                out.add((kx, rel, to_kind, phrase, 'many'))
            for y in ys:
                if id(y) in old_keys and 'M' not in back_card:
                    if len(nav_many(y, kx, int(rel[1:]), back_phrase)) > 1:
                        k, idx = old_keys[id(y)]
                        if (k, idx, rel, kx, back_phrase, 'many') not in base:
                            out.add((k, rel, kx, back_phrase, 'many'))
    return sorted(out)


def uniqueness_violations(m, new_ids):
    out = []
    sch = schema()
    for kind, idx in sch['indices'].items():
        insts = list(m.select_many(kind))
        if not any(id(i) in new_ids for i in insts):
            continue
        types = sch['types'][kind]
        for ident, names in idx.items():
            seen = {}
            for i in insts:
                vals = tuple(getattr(i, n) for n in names)
                null = any(v is None or (types.get(n.upper()) == 'UNIQUE_ID' and not v) for n, v in zip(names, vals))
                if null and id(i) in new_ids:
                    out.append('%s.%s null: %s' % (kind, ident, ', '.join(names)))
                if vals in seen and (id(i) in new_ids or id(seen[vals]) in new_ids) and not null:
                    out.append('%s.%s duplicated' % (kind, ident))
                seen[vals] = i
    return sorted(set(out))


# ------------------------------------------------------------------ typing ----------------------------------------------------------
def dt_name(s_dt):
    return None if s_dt is None else s_dt.Name


def dt_ok(s_dt, expected, m, generic_ok=False):
    """Is the S_DT instance the data type `expected` (see _c06_gen for the spelling)?"""
    if s_dt is None:
        return False
    if expected.startswith('inst_ref'):
        want_set = expected.startswith('inst_ref_set<')
        kl = G.klass(expected)
        irdt = nav(s_dt, 'S_IRDT', 17)
        if irdt is not None:
            o = nav(irdt, 'O_OBJ', 123)
            return o is not None and o.Key_Lett == kl and bool(irdt.isSet) == want_set
        generic = 'inst_ref_set<Object>' if want_set else 'inst_ref<Object>'
        if s_dt.Name != generic or nav(s_dt, 'S_CDT', 17) is None:
            return False
        return generic_ok or not M.HAS_IRDT[kl]
    return s_dt.Name == expected and nav(s_dt, 'S_IRDT', 17) is None


class Checker(object):
    def __init__(self, m, new, stmts, lists, home):
        self.m, self.new, self.stmts, self.lists, self.home = m, new, stmts, lists, home
        self.out = []
        self.smt_by_pos = {}
        for i in new:
            if kind_of(i) == 'ACT_SMT':
                self.smt_by_pos.setdefault((i.LineNumber, i.StartPosition), []).append(i)
        self.block_of_list = {}
        self.var_refs = []          # (V_VAL, variable node, statement) of every variable value reached

    def fail(self, clause, observed, required):
        self.out.append(dict(clause=clause, observed=observed, required=required))

    # ---- statements ----
    def run(self):
        for i in self.new:
            k = kind_of(i)
            if k == 'ACT_SMT':
                st = subtypes(i, 'R603')
                if len(st) != 1:
                    self.fail('statement-subtype', dict(line=i.LineNumber, column=i.StartPosition, subtypes=sorted(kind_of(x) for x in st)),
                              'exactly one subtype across R603')
            elif k == 'V_VAL':
                st = subtypes(i, 'R801')
                if len(st) != 1:
                    self.fail('value-subtype', dict(line=i.LineNumber, column=i.StartPosition, subtypes=sorted(kind_of(x) for x in st)),
                              'exactly one subtype across R801')
        for lst in self.lists:
            self.check_list(lst)
        blocks = {}
        for lid, b in self.block_of_list.items():
            if b is not None:
                blocks.setdefault(id(b), []).append(lid)
        for ids in blocks.values():
            if len(ids) > 1:
                self.fail('statement-block', 'statement lists %s share one ACT_BLK' % ids, 'one block per statement list')
        n_links = len([i for i in self.new if kind_of(i) == 'ACT_LNK'])
        n_steps = sum(len(s.get('steps', [])) for s in self.all_statements())
        if n_links != n_steps:
            self.fail('r604-chain', '%d ACT_LNK created' % n_links, '%d navigation steps in the program' % n_steps)
        self.check_variables()
        return self.out

    def all_statements(self):
        for lst in self.lists:
            for s in lst['members']:
                yield s

    def find(self, s):
        c = self.smt_by_pos.get((s['line'], s['col']), [])
        c = [i for i in c if any(kind_of(x) == s['act'] for x in subtypes(i, 'R603'))] or c
        if len(c) != 1:
            near = sorted((i.LineNumber, i.StartPosition, i.EndPosition) for l in self.smt_by_pos.values() for i in l if i.LineNumber == s['line'])
            self.fail('statement-position', dict(statements_on_line=near), dict(text=s.get('head', s['act']), line=s['line'], start=s['col'], end=s['end']))
            return None
        return c[0]

    def check_list(self, lst):
        insts = []
        for s in lst['members']:
            i = self.find(s)
            s['inst'] = i
            insts.append(i)
            if i is None:
                continue
            if i.EndPosition != s['end']:
                self.fail('statement-position', dict(line=i.LineNumber, start=i.StartPosition, end=i.EndPosition),
                          dict(text=s.get('head', s['act']), line=s['line'], start=s['col'], end=s['end']))
            st = subtypes(i, 'R603')
            if len(st) == 1 and kind_of(st[0]) != s['act']:
                self.fail('statement-kind', kind_of(st[0]), dict(text=s.get('head', s['act']), kind=s['act']))
            elif len(st) == 1:
                s['sub'] = st[0]
                self.check_statement(s, i, st[0])
        if any(i is None for i in insts):
            return
        blks = [nav(i, 'ACT_BLK', 602) for i in insts]
        if any(b is None for b in blks) or len(set(id(b) for b in blks)) != 1:
            self.fail('statement-block', [None if b is None else b.Block_ID for b in blks], 'all members of a statement list in one block')
            self.block_of_list[lst['id']] = None
        else:
            self.block_of_list[lst['id']] = blks[0]
        # R661: each statement's previous-statement reference
        ids = dict((i.Statement_ID, k) for k, i in enumerate(insts))
        edges, stray = set(), []
        for k, i in enumerate(insts):
            p = i.Previous_Statement_ID
            if not p:
                continue
            if p in ids:
                edges.add((k, ids[p]))
            else:
                stray.append(k)
        n = len(insts)
        adjacent = set(frozenset((k, k + 1)) for k in range(n - 1))
        und = set(frozenset(e) for e in edges)
        uniform = edges == set((k + 1, k) for k in range(n - 1)) or edges == set((k, k + 1) for k in range(n - 1))
        describe = sorted('statement %d (line %d) -> statement %d (line %d)' % (a + 1, insts[a].LineNumber, b + 1, insts[b].LineNumber) for a, b in edges)
        if und != adjacent or stray or not uniform:
            self.fail('r661-neighbours', dict(previous_statement_references=describe, outside_the_list=stray),
                      'the %d members of the statement list linked pairwise in source order, none at the ends' % n)
        elif edges != set((k + 1, k) for k in range(n - 1)):
            self.fail('r661-previous-designates-predecessor', dict(previous_statement_references=describe),
                      'Previous_Statement_ID of member k designates member k-1; none for the first')

    def check_statement(self, s, smt, sub):
        act = s['act']
        if act == 'ACT_AI':
            self.value(nav(sub, 'V_VAL', 609), s['rval'], s, 'right hand side')
            self.value(nav(sub, 'V_VAL', 689), s['lval'], s, 'left hand side')
        elif act == 'ACT_IF':
            self.value(nav(sub, 'V_VAL', 625), s['cond'], s, 'condition')
            els = nav_many(sub, 'ACT_EL', 682)
            by_line = dict((nav(e, 'ACT_SMT', 603).LineNumber if nav(e, 'ACT_SMT', 603) else None, e) for e in els)
            for e in s['elifs']:
                inst = by_line.get(e['line'])
                if inst is None or len(els) != len(s['elifs']):
                    self.fail('statement-position', dict(elif_lines=sorted(str(k) for k in by_line)), dict(text='elif', line=e['line']))
                    continue
                self.value(nav(inst, 'V_VAL', 659), e['cond'], s, 'elif condition')
            e = nav(sub, 'ACT_E', 683)
            if (e is not None) != (s['els'] is not None):
                self.fail('statement-position', 'else clause instance: %s' % (e is not None), dict(text='else', present=s['els'] is not None))
            elif e is not None:
                es = nav(e, 'ACT_SMT', 603)
                if es is None or es.LineNumber != s['else_line']:
                    self.fail('statement-position', dict(line=None if es is None else es.LineNumber), dict(text='else', line=s['else_line']))
        elif act == 'ACT_WHL':
            self.value(nav(sub, 'V_VAL', 626), s['cond'], s, 'condition')
        elif act == 'ACT_RET':
            if s['rval'] is not None:
                self.value(nav(sub, 'V_VAL', 668), s['rval'], s, 'returned value')
        elif act == 'ACT_FIW':
            self.value(nav(sub, 'V_VAL', 610), s['where'], s, 'where clause')
        elif act == 'ACT_SEL':
            self.value(nav(sub, 'V_VAL', 613), s['root'], s, 'start of the navigation')
            if s['where'] is not None:
                srw = nav(sub, 'ACT_SRW', 664)
                self.value(nav(srw, 'V_VAL', 611), s['where'], s, 'where clause')
            self.chain(s, sub)
        elif act in ('ACT_FNC', 'ACT_BRG', 'ACT_TFM'):
            rel = {'ACT_FNC': 669, 'ACT_BRG': 628, 'ACT_TFM': 627}[act]
            self.params(s['call'], nav_many(sub, 'V_PAR', rel), s)
            pars = nav_many(sub, 'V_PAR', rel)
            if pars:
                c = s['call']
                vrel = {'function': ('V_FNV', 817), 'bridge': ('V_BRV', 810), 'cop': ('V_TRV', 811), 'iop': ('V_TRV', 811)}[c['what']]
                inv = nav(pars[0], vrel[0], vrel[1])
                self.type_of(nav(inv, 'V_VAL', 801), c, s, 'invocation value')

    # ---- values ----
    def type_of(self, v, node, s, role):
        if v is None:
            self.fail('value-structure', 'no V_VAL', dict(statement=s.get('head', s['act']), role=role, expression=node['s']))
            return False
        if node['t'] is None:
            return True
        dt = nav(v, 'S_DT', 820)
        if not dt_ok(dt, node['t'], self.m, generic_ok=node['k'] == 'selected'):
            self.fail('value-type', dict(data_type=dt_name(dt)), dict(statement=s.get('head', s['act']), expression=node['s'], type=node['t']))
        return True

    def value(self, v, node, s, role):
        while node['k'] == 'paren':
            node = node['inner']
        if not self.type_of(v, node, s, role):
            return
        k = node['k']
        if k == 'var' and node.get('cell') is not None:
            self.var_refs.append((v, node, s))
        elif k == 'bin':
            b = nav(v, 'V_BIN', 801)
            self.value(nav(b, 'V_VAL', 802), node['l'], s, 'left operand of %s' % node['op'])
            self.value(nav(b, 'V_VAL', 803), node['r'], s, 'right operand of %s' % node['op'])
        elif k == 'un':
            u = nav(v, 'V_UNY', 801)
            self.value(nav(u, 'V_VAL', 804), node['e'], s, 'operand of %s' % node['op'])
        elif k == 'attr':
            a = nav(v, 'V_AVL', 801)
            self.value(nav(a, 'V_VAL', 807), node['root'], s, 'instance of attribute %s' % node['name'])
        elif k == 'call':
            kind, rel = {'function': ('V_FNV', 817), 'bridge': ('V_BRV', 810), 'cop': ('V_TRV', 811), 'iop': ('V_TRV', 811)}[node['what']]
            inv = nav(v, kind, 801)
            if inv is None:
                self.fail('value-structure', 'V_VAL is not a %s' % kind, dict(statement=s.get('head', s['act']), expression=node['s']))
                return
            self.params(node, nav_many(inv, 'V_PAR', rel), s)

    def params(self, call, pars, s):
        names = [n for n, _ in call['args']]
        got = sorted(p.Name for p in pars)
        if got != sorted(names):
            self.fail('value-structure', dict(parameters=got), dict(statement=s.get('head', s['act']), invocation=call['s'], parameters=names))
            return
        by = dict((p.Name, p) for p in pars)
        for n, e in call['args']:
            self.value(nav(by[n], 'V_VAL', 800), e, s, 'parameter %s' % n)
        ids = dict((by[n].Value_ID, k) for k, n in enumerate(names))
        edges, stray = set(), []
        for k, n in enumerate(names):
            nx = by[n].Next_Value_ID
            if not nx:
                continue
            if nx in ids:
                edges.add((k, ids[nx]))
            else:
                stray.append(n)
        cnt = len(names)
        fwd, back = set((k, k + 1) for k in range(cnt - 1)), set((k + 1, k) for k in range(cnt - 1))
        describe = sorted('%s -> %s' % (names[a], names[b]) for a, b in edges)
        if stray or edges not in (fwd, back):
            self.fail('r816-neighbours', dict(next_parameter_references=describe, outside=stray),
                      dict(invocation=call['s'], required='parameters %s linked pairwise in source order, none at the ends' % names))
        elif edges != fwd:
            self.fail('r816-next-designates-successor', dict(next_parameter_references=describe),
                      dict(invocation=call['s'], required='Next_Value_ID of each parameter designates the parameter written after it; none for the last'))

    def chain(self, s, act_sel):
        seq = []
        lnk = nav(act_sel, 'ACT_LNK', 637)
        seen = set()
        links = dict((i.Link_ID, i) for i in self.new if kind_of(i) == 'ACT_LNK')
        while lnk is not None and id(lnk) not in seen:
            seen.add(id(lnk))
            o, r = nav(lnk, 'O_OBJ', 678), nav(lnk, 'R_REL', 681)
            seq.append([o.Key_Lett if o else None, 'R%d' % r.Numb if r else None, (lnk.Rel_Phrase or '').strip("'") or None])
            lnk = links.get(lnk.Next_Link_ID) if lnk.Next_Link_ID else None
        want = [[a, b, c.strip("'") if c else None] for a, b, c in s['steps']]
        if seq != want:
            self.fail('r604-chain', dict(steps_from_R637_along_Next_Link_ID=seq), dict(statement=s['head'], steps=want))

    # ---- variables ----
    def declaring_blocks(self, stmt):
        """ACT_BLK instances that may hold a variable declared by the statement (None when a block could not be determined)."""
        blocks = [self.block_of_list.get(stmt['list'])]
        if stmt['act'] == 'ACT_FOR':
            blocks.append(self.block_of_list.get(stmt['blk']))      # loop variable: enclosing or loop block accepted
        return None if any(b is None for b in blocks) else blocks

    def check_variables(self):
        vars_by_name = {}
        for i in self.new:
            if kind_of(i) == 'V_VAR':
                vars_by_name.setdefault(i.Name, []).append((i, nav(i, 'ACT_BLK', 823)))
        declared = {}           # name -> ids of the blocks that declare a variable of that name
        unknown = set()
        for s in self.all_statements():
            for name, ty in s.get('decl', []):
                ok_blocks = self.declaring_blocks(s)
                if ok_blocks is None:
                    unknown.add(name)
                    continue
                declared.setdefault(name, set()).update(id(b) for b in ok_blocks)
                here = [v for v, b in vars_by_name.get(name, []) if b is not None and id(b) in [id(x) for x in ok_blocks]]
                if len(here) != 1:
                    self.fail('variable-block', dict(variable=name, v_var_in_the_declaring_block=len(here),
                                                     blocks_of_v_var_with_that_name=[None if b is None else b.Block_ID for v, b in vars_by_name.get(name, [])]),
                              dict(statement=s.get('head', s['act']), line=s['line'], declaring_block=ok_blocks[0].Block_ID,
                                   required='one V_VAR of that name related (R823) to the block of the declaring statement list'))
        for name, blocks in declared.items():
            if name in unknown:
                continue
            for v, b in vars_by_name.get(name, []):
                if b is None or id(b) not in blocks:
                    self.fail('variable-block', dict(variable=name, block=None if b is None else b.Block_ID),
                              'every V_VAR named %s belongs to a block in which the program declares %s' % (name, name))
        for v, node, s in self.var_refs:
            ok_blocks = self.declaring_blocks(node['cell']['stmt']) if node['cell']['stmt'] is not None else None
            if ok_blocks is None:
                continue
            var = None
            for sub, rel in (('V_TVL', 805), ('V_IRF', 808), ('V_ISR', 809)):
                x = nav(v, sub, 801)
                if x is not None:
                    var = nav(x, 'V_VAR', rel)
            if var is None:
                self.fail('value-structure', 'no V_VAR across R805/R808/R809', dict(statement=s.get('head', s['act']), expression=node['s']))
                continue
            b = nav(var, 'ACT_BLK', 823)
            if var.Name != node['name'] or b is None or id(b) not in [id(x) for x in ok_blocks]:
                d = node['cell']['stmt']
                self.fail('variable-block', dict(designated_variable=var.Name, block=None if b is None else b.Block_ID),
                          dict(statement=s.get('head', s['act']), line=s['line'], expression=node['s'],
                               declared_by=d.get('head', d['act']), declared_at_line=d['line'], declaring_block=ok_blocks[0].Block_ID,
                               required='the value designates the variable of the block that declares the name in scope here'))


# ------------------------------------------------------------------ a case -----------------------------------------------------------
def run_case(case):
    from bridgepoint import prebuild
    home = case['home']
    rng = random.Random(case['gen'])
    text, stmts, lists = G.generate(rng, home, case['size'], case.get('forced'), case.get('reuse') or 0.0, case.get('skeleton'))
    if case.get('text') is not None and case['text'] != text:
        return [dict(clause='generator-drift', observed=text, required=case['text'])]
    m = R.load(M.model_text())
    inst = M.home_instance(m, home)
    old_keys = stable_keys(m)
    inst.Action_Semantics_internal = text
    inst.Suc_Pars = 1
    try:
        prebuild.prebuild_action(inst)
    except BaseException as e:
        if isinstance(e, (KeyboardInterrupt, MemoryError)):
            raise
        return [dict(clause='prebuild-raises', observed=traceback.format_exc().splitlines()[-3:], required='instances for a well-formed program')]
    new = [i for i in m.instances if id(i) not in old_keys]
    new_ids = set(id(i) for i in new)
    out = []
    fresh = new_constraint_violations(m, old_keys, new)
    if fresh:
        out.append(dict(clause='multiplicity', observed=['%s -[%s%s]-> %s: %s' % (a, r, ('.' + p) if p else '', b, w) for a, r, b, p, w in fresh],
                        required='every association constraint of the ooaofooa schema holds for the created instances'))
    u = uniqueness_violations(m, new_ids)
    if u:
        out.append(dict(clause='uniqueness', observed=u, required='identifiers of created instances are non-null and unique'))
    out.extend(Checker(m, new, stmts, lists, home).run())
    # one violation per clause is enough for one program
    seen, res = set(), []
    for v in out:
        if v['clause'] not in seen:
            seen.add(v['clause'])
            res.append(v)
    return res


def make_case(home, gen, size, forced=None, reuse=None, skeleton=None):
    text, _, _ = G.generate(random.Random(gen), home, size, forced, reuse or 0.0, skeleton)
    case = dict(home=home, gen=gen, size=size, forced=forced, text=text)
    if reuse:
        case['reuse'] = reuse
    if skeleton is not None:
        case['skeleton'] = skeleton
    return case


def check_case(ctx, case):
    ctx.case(key=[case['home'], case['text']], nontrivial=True, sample=dict(home=case['home'], text=case['text']))
    try:
        vs = run_case(case)
    except BaseException as e:
        if isinstance(e, (KeyboardInterrupt, MemoryError)):
            raise
        ctx.check(False, clause='harness-error', input=case, observed=traceback.format_exc().splitlines()[-5:], required='case runs')
        return
    for v in vs:
        ctx.check(False, clause=v['clause'], input=case, observed=v['observed'], required=v['required'])


# ------------------------------------------------------------------ items ------------------------------------------------------------
def systematic_cases(pairs=True):
    """Every statement kind alone x3 (with what it needs), nested in if/while/for, if/elif/else ladders, break/continue in
    loops and (pairs) every ordered pair of kinds; in every home."""
    for home in HOMES:
        for k in KINDS:
            for rep in range(3):
                yield make_case(home, 'sys/%s/%s/%d' % (home, k, rep), 1, [k])
    for home in HOMES:
        for k in KINDS:
            for outer in ('if', 'while', 'for'):
                yield make_case(home, 'nest/%s/%s/%s' % (home, outer, k), 3, [outer, k])
    for home in HOMES:
        for rep in range(6):
            yield make_case(home, 'ifs/%s/%d' % (home, rep), 7, ['if'])
    for home in HOMES[:4]:
        for k in ('break', 'continue'):
            for outer in ('while', 'for'):
                yield make_case(home, 'loop/%s/%s/%s' % (home, outer, k), 3, [outer, k])
    if not pairs:
        return
    for home in HOMES:
        for k1, k2 in itertools.product(KINDS, KINDS):
            yield make_case(home, 'pair/%s/%s/%s' % (home, k1, k2), 2, [k1, k2])

@item('statement-kinds', stands_in_for=['bridgepoint.prebuild.prebuild_action', 'bridgepoint.prebuild.ActionPrebuilder',
                                        'bridgepoint.prebuild.FunctionPrebuilder', 'bridgepoint.prebuild.BridgePrebuilder',
                                        'bridgepoint.prebuild.OperationPrebuilder', 'bridgepoint.prebuild.DerivedAttributePrebuilder'],
      bound='24 statement forms (assignments to transients/attributes/instance handles, create, delete, relate/unrelate (+using, phrases), '
            'select any/many from instances (+where), select one/any/many related by chains of 1-3 steps (+where), function/bridge/'
            'operation invocations, control stop, return, if/elif/else, while, for each, break, continue): each alone x3, (thorough: every '
            'ordered pair,) each nested in if/while/for; 6 if/elif/else ladders; in 6 action homes (function void/integer, bridge, instance and class operation, derived attribute)',
      shards=3, weight=2)
def statement_kinds(ctx):
    for i, case in enumerate(systematic_cases(pairs=not ctx.quick)):
        if i % ctx.nshards != ctx.shard:
            continue
        if ctx.expired():
            ctx.exhausted = False
            break
        check_case(ctx, case)
    else:
        ctx.exhausted = True
    if ctx.shard == 0:
        ctx.note('not compared: LineNumber/StartPosition/EndPosition of V_VAL instances and the columns of elif/else clauses '
                 '(the property speaks of statements; a clause has no statement text of its own), the type of arithmetic on mixed '
                 'integer/real operands, event statements (the seed model has no state machines)')


# ------------------------------------------------------------------ scopes -----------------------------------------------------------
HOWS = ['integer', 'real', 'string', 'boolean', 'Colour', 'unique_id', 'create:A', 'create:B', 'any:L', 'many:A', 'many:B', 'where:A',
        'handle', 'related', 'call']
INNER = ['if', 'elif', 'else', 'while', 'for']


def inner(kind, body):
    """A block statement of the given kind whose (elif / else: last) body is `body`."""
    return {'if': ['if', body, [], None], 'elif': ['if', [['x']], [body], None], 'else': ['if', [['x']], [], body],
            'while': ['while', body], 'for': ['for', body, None]}[kind]


def scope_skeletons(quick):
    """(label, skeleton): one name declared by several blocks.  d = declare/assign, u = use; see _c06_gen.Gen.sk_block."""
    K = HOWS
    n = len(K)

    def d(k, name='x'):
        return ['d', name, k]

    u, uy = ['u', 'x'], ['u', 'y']
    offs = lambda full, some: range(n) if full else some
    # declared in a nested block, declared again (another way) after that block has ended
    for b in INNER:
        for i in range(n):
            for j in offs(not quick, (0, 1, 2, 4, 7, 8, 11, 13) if b == 'if' else (1, 4, 8)):
                k1, k2 = K[i], K[(i + j) % n]
                yield 'after/%s/%s/%s' % (b, k1, k2), [inner(b, [d(k1), u]), d(k2), u]
    # the bodies of one if / elif / else ladder declare the same name, and the enclosing block afterwards
    for i in range(n):
        for j in offs(not quick, (1, 2, 5)):
            k1, k2, k3, k4 = K[i], K[(i + j) % n], K[(i + 2 * j) % n], K[(i + 3 * j) % n]
            yield 'ladder/%s/%s/%s/%s' % (k1, k2, k3, k4), [['if', [d(k1), u], [[d(k2), u]], [d(k3), u]], d(k4), u]
            if j == 1 or not quick:
                yield 'ladder2/%s/%s/%s' % (k1, k2, k3), [['if', [d(k1)], [[d(k2)], [d(k3), u]], None], u, d(k1), u]
    # sibling blocks
    for b1 in ('if', 'while', 'for'):
        for b2 in ('if', 'while', 'for'):
            for i in range(n):
                for j in (3,) if quick else (1, 3, 7, 11):
                    k1, k2 = K[i], K[(i + j) % n]
                    yield 'siblings/%s/%s/%s/%s' % (b1, b2, k1, k2), [inner(b1, [d(k1), u]), ['x'], inner(b2, [d(k2), u])]
    # two levels
    for b1 in INNER:
        for b2 in INNER:
            for i in range(0, n, 1 if not quick else 3):
                k1, k2, k3 = K[(i + INNER.index(b1)) % n], K[(i + 5 + INNER.index(b2)) % n], K[(i + 9) % n]
                yield 'nested/%s/%s/%s/%s/%s' % (b1, b2, k1, k2, k3), [inner(b1, [inner(b2, [d(k1), u]), d(k2), u]), d(k3), u]
    # declared in a nested block, then by the enclosing block: a later nested block uses the enclosing block's variable
    for b in INNER:
        for i in range(n):
            for j in (2,) if quick else (0, 2, 6, 10):
                k1, k2 = K[i], K[(i + j) % n]
                yield 'later-outer/%s/%s/%s' % (b, k1, k2), [inner(b, [d(k1)]), d(k2), inner(b, [u, d(k2), u]), u]
                yield 'two-names/%s/%s/%s' % (b, k1, k2), [d(k1, 'y'), inner(b, [d(k2), uy, d(k1, 'y'), u]),
                                                           inner(INNER[(INNER.index(b) + 1) % 5], [d(k1), u, uy]), d(k2), u, uy]
    # loop variables
    for i in range(n):
        k = K[i]
        for b in INNER if not quick else [INNER[i % 5]]:
            yield 'loop-variable/%s/%s' % (b, k), [inner(b, [['for', [u], 'x'], u]), d(k), u]
        yield 'loop-body/%s' % k, [['for', [d(k, 'y'), uy, u], 'x'], u, d(K[(i + 1) % n], 'y'), uy]


def scope_cases(quick):
    for idx, (label, sk) in enumerate(scope_skeletons(quick)):
        for home in ([HOMES[idx % len(HOMES)]] if quick else HOMES):
            yield make_case(home, 'scope/%s/%s' % (home, label), 0, None, 0.5 if idx % 4 == 3 else None, sk)


@item('scopes', stands_in_for=['bridgepoint.prebuild.SymbolTable', 'bridgepoint.prebuild.ActionPrebuilder'],
      bound='one variable name declared by several blocks: in a nested block (if / elif / else / while / for each body) and again after '
            'it has ended, in every body of an if/elif/else ladder, in sibling blocks, two levels deep, by a nested and later by the '
            'enclosing block, as for-each loop variable; each declaration one of 15 forms (transient of 6 types, create, select any/many/'
            'where, select related, instance handle, invocation result) of different types, followed by a use; quick: one action home '
            'per shape (rotating) and 1-8 rotations of the pairs of forms, thorough: all 6 homes, all pairs for '
            'nested-then-after and the ladders, 4 rotations for the other shapes',
      shards=4, weight=2)
def scopes(ctx):
    for i, case in enumerate(scope_cases(ctx.quick)):
        if i % ctx.nshards != ctx.shard:
            continue
        if ctx.expired():
            ctx.exhausted = False
            break
        check_case(ctx, case)
    else:
        ctx.exhausted = True


def random_cases(quick, seed):
    """(home, generator seed, size, probability of re-using the name of a variable of a finished block)"""
    sizes = [2, 3, 4, 5, 6, 8, 10, 12] if quick else [2, 3, 4, 5, 6, 8, 10, 12, 16, 20, 25]
    per = 48 if quick else 800
    for size in sizes:
        for n in range(per):
            for home in HOMES[:4] if n % 3 else HOMES:
                yield (home, 'rnd/%s/%s/%d/%d' % (seed, home, size, n), size, 0.6 if n % 2 and size > 2 else None)


@item('random-programs', stands_in_for=['bridgepoint.prebuild.prebuild_action', 'bridgepoint.prebuild.ActionPrebuilder'],
      bound='seeded random programs of 2..12 (quick) / 2..25 (thorough) statements, nesting depth <= 3, expressions of depth <= 3 over '
            'literals, variables, attribute/parameter reads, enumerators, constants, arithmetic, comparisons, and/or/not, cardinality/empty/'
            'not_empty, invocations with named parameters; 48 (quick) / 800 (thorough) programs per size and home, every second one '
            'naming new variables like variables of finished blocks (probability 0.6); non-trivial = distinct text',
      shards=9, weight=3)
def random_programs(ctx):
    for i, (home, gen, size, reuse) in enumerate(random_cases(ctx.quick, ctx.seed)):
        if i % ctx.nshards != ctx.shard:
            continue
        if ctx.expired():
            ctx.exhausted = False
            break
        check_case(ctx, make_case(home, gen, size, None, reuse))
    else:
        ctx.exhausted = True


def replay(item_name, input):
    return run_case(input)
