"""C15 program space: BridgePoint models with functions, bridges (external entity EX), class-based and instance-based
operations and a derived attribute whose OAL bodies call each other (call graphs), plus enumerations and constants.
A *case* is a JSON-able description (signatures + body trees + entry invocation + population + row order); `build` turns it
into model text (rows as BridgePoint writes them), `run_real` loads it with the real loader / mk_component and invokes the
entry from Python, `run_reference` evaluates it with ref_oal.Machine."""
import random

import vlib.fresh_ply  # noqa: F401
import xtuml

from bounded import _c04_bp as bp
from bounded import _c04_gen as G
from bounded import ref_oal as R

TYPE_NAME = dict(int='integer', str='string', bool='boolean')
TY = dict(integer='int', string='str', boolean='bool')
ENUMS = {'Color': ['red', 'green', 'blue'], 'Mode': ['off', 'on']}
CONSTS = [('K1', 'integer', '5'), ('K2', 'integer', '12'), ('KS', 'string', 'abc'), ('KB', 'boolean', 'true'), ('KF', 'boolean', 'false')]
CONST_VALUES = dict(K1=5, K2=12, KS='abc', KB=True, KF=False)

POPULATION = dict(
    A=[dict(a_id=1, i=1, s='x', b=True), dict(a_id=2, i=2, s='y', b=False), dict(a_id=3, i=3, s='x', b=True)],
    B=[dict(b_id=11, n=10, t='p'), dict(b_id=12, n=20, t='q'), dict(b_id=13, n=30, t='p')],
    links=dict(R1=[[0, 0], [0, 1], [1, 2]]))


# ------------------------------------------------------------------------------------------------- case -> model / schema
def make_schema(case):
    s = R.Schema()
    derived = case.get('derived') or {}
    s.classes['A'] = [R.Attr('a_id', 'unique_id', 'id'), R.Attr('i', 'integer'), R.Attr('s', 'string'), R.Attr('b', 'boolean')]
    s.classes['B'] = [R.Attr('b_id', 'unique_id', 'id'), R.Attr('n', 'integer'), R.Attr('t', 'string'),
                      R.Attr('a_id', 'unique_id', 'ref', 'R1', 'a_id', 'A')]
    for name in sorted(derived):
        s.classes['A'].append(R.Attr(name, 'integer', 'derived', body=derived[name]))
    s.rels['R1'] = R.Rel('R1', 'simple', 'A', 'B', form_many=True)
    for c in case['callables']:
        params = [(n, t) for n, t in c['params']]
        call = R.Callable_(c['kind'], c['name'], params, c['ret'], c['body'], c.get('owner'))
        if c['kind'] == 'function':
            s.functions[c['name']] = call
        elif c['kind'] == 'bridge':
            s.bridges[(c['owner'], c['name'])] = call
        else:
            s.operations[(c['owner'], c['name'])] = call
    for name, items in (case.get('enums') or ENUMS).items():
        s.enums[name] = list(items)
    for name, ty, text in (case.get('consts') or CONSTS):
        s.consts[name] = dict(integer=int, string=str, boolean=lambda t: t.lower() == 'true')[ty](text)
    return s


def body_list(case):
    """[(key, body tree)] of every action of the case, in a fixed order."""
    out = [('%s %s' % (c['kind'], c['name']), c['body']) for c in case['callables']]
    out += [('derived A.%s' % name, body) for name, body in sorted((case.get('derived') or {}).items())]
    return out


def keywords(case, style=None):
    """The keyword occurrences of all actions, in the order of body_list (C08 re-spells them by this index)."""
    return [str(p) for _, tree in body_list(case) for p in R.pieces(tree, style) if isinstance(p, R.K)]


def bodies(case, style=None, casing=None):
    """OAL text of every action of the case.  casing: {index of the keyword occurrence over all actions: spelling}."""
    out, n = {}, 0
    for key, tree in body_list(case):
        fn = (lambda i, kw, n=n: casing.get(n + i, kw)) if casing else None
        out[key] = R.render(tree, style, fn)
        n += R.count_keywords(tree, style)
    return out


def build(case, style=None, casing=None):
    """BPModel of the case."""
    m = bp.BPModel('C15')
    derived = case.get('derived') or {}
    texts = bodies(case, style, casing)
    m.klass('A', [('a_id', 'unique_id'), ('i', 'integer'), ('s', 'string'), ('b', 'boolean')] +
            [(name, 'integer', texts['derived A.%s' % name]) for name in sorted(derived)])
    m.klass('B', [('b_id', 'unique_id'), ('n', 'integer'), ('t', 'string')])
    m.simple(1, 'B', 'A', 'a_id', 'a_id', form_many=True)
    bridges = {}
    for c in case['callables']:
        params = tuple((n, t) for n, t in c['params'])
        ret = TYPE_NAME.get(c['ret'], 'void')
        text = texts['%s %s' % (c['kind'], c['name'])]
        if c['kind'] == 'function':
            m.function(c['name'], text, params, ret)
        elif c['kind'] == 'bridge':
            bridges.setdefault(c['owner'], []).append((c['name'], text, params, ret))
        else:
            m.operation(c['owner'], c['name'], text, params, ret, instance_based=(c['kind'] == 'iop'))
    for ee in sorted(bridges):
        m.external_entity(ee, bridges[ee])
    enum_rows = {}
    for name, items in sorted((case.get('enums') or ENUMS).items()):
        enum_rows[name] = m.enumeration(name, items)
    m.constants('CS', case.get('consts') or CONSTS)
    return m, enum_rows


def row_order(case, nrows, enum_rows):
    """Order of the INSERT statements: None (as generated), 'reverse', 'shuffle:<seed>', 'enum-reverse',
    'enum-perm:<name>:<i,j,k>' (only the S_ENUM rows of one enumeration permuted among their positions)."""
    spec = case.get('rows')
    order = list(range(nrows))
    if not spec:
        return None
    if spec == 'reverse':
        return order[::-1]
    if spec.startswith('shuffle:'):
        random.Random(spec).shuffle(order)
        return order
    if spec == 'enum-reverse':
        for rows in enum_rows.values():
            for a, b in zip(rows, rows[::-1]):
                order[a] = b
        return order
    if spec.startswith('enum-perm:'):
        _, name, perm = spec.split(':')
        rows = enum_rows[name]
        for pos, k in zip(rows, [int(x) for x in perm.split(',')]):
            order[pos] = rows[k]
        return order
    raise ValueError(spec)


def load(case, style=None, casing=None):
    m, enum_rows = build(case, style, casing)
    text = m.sql(row_order(case, len(m.rows), enum_rows))
    mm, domain = bp.load(text)
    return domain


# ------------------------------------------------------------------------------------------------- running
def find_callable(case, entry):
    for c in case['callables']:
        if c['kind'] == entry['kind'] and c['name'] == entry['name'] and c.get('owner') == entry.get('owner'):
            return c
    raise KeyError(entry)


def run_reference(case, logic='strict', where_effects=False):
    """(result, snapshot, machine) of the entry invocation; raises OutOfDomain."""
    sch = make_schema(case)
    w = G.populate_ref(sch, case.get('population') or POPULATION)
    m = R.Machine(w, max_steps=4000, max_depth=12, max_calls=60, logic=logic, where_effects=where_effects)
    try:
        return G.with_timeout(lambda: _run_reference(case, sch, w, m), 10.0)
    except G.Timeout:
        raise R.OutOfDomain('reference evaluation exceeds its time budget')


def _run_reference(case, sch, w, m):
    e = case['entry']
    this = w.extent['A'][e['this']] if e.get('this') is not None else None
    if e['kind'] == 'derived':
        result = m.expr(['attr', ['self'], e['name']], R.Frame(None, this))
    elif e['kind'] == 'symbol':
        result = sch.consts[e['name']] if e['name'] in sch.consts else None
    else:
        c = find_callable(case, e)
        call = (sch.functions.get(c['name']) if c['kind'] == 'function' else
                sch.bridges.get((c['owner'], c['name'])) if c['kind'] == 'bridge' else sch.operations[(c['owner'], c['name'])])
        result = m.call(call, dict(e['args']), this)
    return result, R.snapshot(w), m


def invoke(domain, rows, entry):
    """Invoke the entry from Python the way a user of mk_component does."""
    args = dict(entry.get('args') or {})
    kind = entry['kind']
    if kind == 'function':
        return domain.find_symbol(entry['name'])(**args)
    if kind == 'bridge':
        return getattr(domain.find_symbol(entry['owner']), entry['name'])(**args)
    if kind == 'cop':
        return getattr(domain.find_class(entry['owner']), entry['name'])(**args)
    if kind == 'iop':
        return getattr(rows['A'][entry['this']], entry['name'])(**args)
    if kind == 'derived':
        return getattr(rows['A'][entry['this']], entry['name'])
    raise KeyError(kind)


def run_real(case, style=None, casing=None):
    """(result, snapshot, error) of the entry invocation on the Domain mk_component builds from the model text."""
    sch = make_schema(case)
    try:
        domain = load(case, style, casing)
    except Exception as e:
        return None, None, 'loading the model: %s: %s' % (type(e).__name__, e)
    rows = G.populate_real(domain, sch, case.get('population') or POPULATION)
    try:
        result = G.with_timeout(lambda: invoke(domain, rows, case['entry']), 8.0)
    except G.Timeout:
        return None, None, 'timeout'
    except Exception as e:
        return None, None, '%s: %s' % (type(e).__name__, e)
    return result, G.snapshot_real(domain, sch), None


def check_case(case):
    """None when the case is outside the property, else [(clause, observed, required)] ([] = passes)."""
    try:
        ref_result, ref_snap, machine = run_reference(case)
    except R.OutOfDomain:
        return None
    result, snap, err = run_real(case)
    required = dict(returns=G.plain(ref_result))
    clause = 'call-result-and-final-population'
    if 'bare-return' in machine.events:
        clause = 'bare-return-delivers-nothing'
    elif case.get('rows') and 'enum-read' in machine.events:
        clause = 'enumerator-modeled-order'
    elif case.get('rows'):
        clause = 'row-order-independent'
    elif case.get('clause'):
        clause = case['clause']
    if err == 'timeout':
        what = 'no result within 8 s of CPU time (the reference makes at most 60 invocations)'
        if clause == 'enumerator-modeled-order':      # e.g. a loop bound computed from an enumerator
            return [(clause, what, required)]
        return [('bounded-time', what, 'terminates')]
    if err:
        return [(clause, err, required)]
    diff = G.differences(ref_result, ref_snap, result, snap)
    if diff:
        return [(clause, diff[:6], dict(returns=G.plain(ref_result), population=G.plain(ref_snap)))]
    return []


# ------------------------------------------------------------------------------------------------- generator
class Sig(object):
    def __init__(self, kind, name, owner, params, ret, form, pure):
        self.kind, self.name, self.owner, self.params, self.ret, self.form, self.pure = kind, name, owner, params, ret, form, pure
        self.body = None

    def as_dict(self):
        return dict(kind=self.kind, name=self.name, owner=self.owner, params=[list(p) for p in self.params], ret=self.ret,
                    form=self.form, pure=self.pure, body=self.body)


BODY_PROFILE = dict(ints=[0, 1, 2], strs=['x', ''], depth=2, chain=1, prelude=0.3, where=0.5, elifs=[0, 0, 1], else_=0.4,
                    kinds=dict(assign_var=4, assign_attr=2, create=1, selfrom=2, selrel=1, if_=2, while_=1, for_=1.5, return_=0.7,
                               call=4, break_=0.3, continue_=0.3))


class CGen(G.Gen):
    """Body generator: C04's generator plus parameters, self, enumerators, constants and invocations."""

    def __init__(self, chooser, sch, sigs, me, profile=None):
        prof = dict(BODY_PROFILE)
        prof.update(profile or {})
        if me is not None and me.pure:
            kinds = dict(prof['kinds'])
            kinds['assign_attr'] = kinds['create'] = 0
            prof['kinds'] = kinds
        if me is not None and me.pure:
            prof['prelude_no_create'] = True
        G.Gen.__init__(self, chooser, prof, sch)
        self.sigs, self.me = sigs, me
        self.calls_left = 3
        self.ret = me.ret if me is not None else 'int'
        self.has_self = me is not None and me.kind in ('iop', 'derived')
        self.pure_only = me is not None and me.pure

    # -- expressions -------------------------------------------------------------------------------------------
    def atoms(self, ty, sel):
        out = G.Gen.atoms(self, ty, sel)
        if self.me is not None:
            out += [['param', n] for n, t in self.me.params if TY[t] == ty and n != 'd']
        if self.has_self:
            out += [['attr', ['self'], a] for a in self.attrs_of('A', ty)]
        if ty == 'int' and not (self.me is not None and self.me.kind == 'derived'):
            out += [['attr', ['var', n], 'd'] for n in self.visible('A')]     # derived attribute A.d
            if sel == 'A':
                out.append(['attr', ['selected'], 'd'])
            if self.has_self:
                out.append(['attr', ['self'], 'd'])
        if ty == 'int':
            out += [['enum', 'Color', 'green'], ['enum', 'Color', 'blue'], ['enum', 'Mode', 'on'], ['const', 'K1']]
        elif ty == 'str':
            out += [['const', 'KS']]
        elif ty == 'bool':
            out += [['const', 'KB']]
        return out

    def callees(self, ret, pure):
        out = []
        for s in self.sigs:
            if s.ret != ret or (pure and not s.pure):
                continue
            if s.kind == 'iop' and not (self.has_self or self.visible('A')):
                continue
            out.append(s)
        return out

    def expr(self, ty, depth, sel=None):
        if self.calls_left > 0 and ty in ('int', 'str', 'bool') and depth >= 0:
            cands = self.callees(ty, bool(sel) or self.pure_only)
            if cands and self.ch.chance(self.p.get('call_rate', 0.3)):
                self.calls_left -= 1
                return self.call_expr(self.ch.pick(cands), depth, sel)
        return G.Gen.expr(self, ty, depth, sel)

    def call_expr(self, sig, depth, sel=None):
        args = []
        for n, t in sig.params:
            if n == 'd':
                e = ['bin', '-', ['param', 'd'], ['int', 1]] if self.me is not None and self.me.kind != 'derived' else ['int', 1]
            else:
                e = self.expr(TY[t], max(depth - 1, 0), sel)
            args.append([n, e])
        if self.ch.chance(0.5):
            args.reverse()                   # parameters are bound by name, not by position
        if sig.kind == 'function':
            return ['fcall', sig.name, args]
        if sig.kind == 'bridge':
            return ['bcall', sig.owner, sig.name, args]
        if sig.kind == 'cop':
            return ['ccall', sig.owner, sig.name, args]
        targets = [['var', v] for v in self.visible('A')] + ([['self']] if self.has_self else [])
        return ['icall', self.ch.pick(targets), sig.name, args]

    # -- statements --------------------------------------------------------------------------------------------
    def st_assign_var(self, in_loop, depth):
        """As in C04, but now and then the local variable is named like a parameter of the same type: param.<name> and the
        variable <name> are different things (parameters are bound by name, locals live in the body's scope)."""
        own = [(n, TY[t]) for n, t in (self.me.params if self.me is not None else []) if n != 'd']
        if own and self.ch.chance(self.p.get('shadow', 0.35)):
            name, ty = self.ch.pick(own)
            e = self.expr(ty, self.p['depth'])
            if e is not None and all(sc.get(name, ty) == ty for sc in self.scopes):
                self.declare(name, ty)
                return [['assign', ['var', name], e]]
        return G.Gen.st_assign_var(self, in_loop, depth)

    def st_call(self, in_loop, depth):
        cands = [s for s in self.sigs if (s.pure or not self.pure_only) and (s.kind != 'iop' or self.has_self or self.visible('A'))]
        if not cands or self.calls_left <= 0:
            return None
        self.calls_left -= 1
        return [['call', self.call_expr(self.ch.pick(cands), self.p['depth'])]]

    def st_assign_attr(self, in_loop, depth):
        targets = [(['var', n], c) for n, c in self.visible_insts()] + ([(['self'], 'A')] if self.has_self and self.me.kind == 'iop' else [])
        if not targets:
            return None
        h, cls = self.ch.pick(targets)
        a = self.ch.pick([a for a in self.s.classes[cls] if a.kind == 'plain'])
        e = self.expr(G.TYPE_OF[a.ty], self.p['depth'])
        return None if e is None else [['assign', ['attr', h, a.name], e]]

    def st_selrel(self, in_loop, depth):
        if self.has_self and self.ch.chance(0.5):
            to, rel, phrase, to_many = self.ch.pick(self.steps['A'])
            card = self.ch.pick(['any', 'many']) if to_many else 'one'
            name = self.ch.pick(G.VARS[to + '*' if card == 'many' else to])
            w = self.where(to)
            self.declare(name, to + '*' if card == 'many' else to)
            return [['selrel', card, name, ['self'], [[to, rel, phrase]], w]]
        if not self.visible_insts() and not self.visible_sets():
            return None
        return G.Gen.st_selrel(self, in_loop, depth)

    def st_return_(self, in_loop, depth):
        if self.me is None or self.me.form == 'fall':
            return None
        if self.me.form == 'bare':
            return [['return', None]]
        e = self.expr(self.me.ret, self.p['depth'])
        return None if e is None else [['return', e]]

BASE_VALUES = dict(int=[['int', 0], ['int', 7]], str=[['str', ''], ['str', 'base']], bool=[['bool', True], ['bool', False]])


def gen_body(ch, sch, sigs, me, statements):
    g = CGen(ch, sch, sigs, me)
    pre = g.prelude()
    g.budget = statements
    body = []
    while g.budget > 0:
        body += g.statement(False, 0)
    if me.form == 'value':
        e = g.expr(me.ret, g.p['depth'])
        tail = [['return', e]]
        guard = [['if', ['bin', '<=', ['param', 'd'], ['int', 0]], [['return', ch.pick(BASE_VALUES[me.ret])]], [], None]]
        return guard + pre + body + tail
    if me.form == 'bare':
        guard = [['if', ['bin', '<=', ['param', 'd'], ['int', 0]], [['return', None]], [], None]]
        return guard + pre + body + ([['return', None]] if ch.chance(0.5) else [])
    return [['if', ['bin', '>', ['param', 'd'], ['int', 0]], pre + body, [], None]]


PARAM_NAMES = ((('n', 'x', 'y'), 'integer'), (('t', 'u'), 'string'), (('c', 'p'), 'boolean'))


def gen_case(rng, bare_rate=0.12):
    """One random call graph with an entry invocation."""
    ch = G.RandomChooser(rng)
    sigs = []
    counts = {}
    for _ in range(rng.randint(2, 5)):
        kind = rng.choice(['function', 'function', 'bridge', 'cop', 'iop', 'iop'])
        counts[kind] = counts.get(kind, 0) + 1
        name = dict(function='F', bridge='G', cop='C', iop='I')[kind] + str(counts[kind])
        owner = dict(function=None, bridge='EX', cop='A', iop='A')[kind]
        # parameter names: n / t / c or a name the bodies also use for local variables (x y u p)
        params = [('d', 'integer')] + [(rng.choice(names), ty) for names, ty in PARAM_NAMES if rng.random() < 0.5]
        r = rng.random()
        if r < bare_rate:
            ret, form = None, 'bare'
        elif r < bare_rate + 0.15:
            ret, form = None, 'fall'
        else:
            ret, form = rng.choice(['int', 'int', 'str', 'bool']), 'value'
        pure = form == 'value' and rng.random() < 0.5
        sigs.append(Sig(kind, name, owner, params, ret, form, pure))
    case = dict(callables=[], derived={}, population=None, rows=None)
    shell = dict(callables=[s.as_dict() for s in sigs], derived={})
    sch = make_schema(dict(shell, callables=[dict(c, body=[]) for c in shell['callables']]))
    for s in sigs:
        s.body = gen_body(ch, sch, sigs, s, rng.randint(1, 4))
    dsig = Sig('derived', 'd', 'A', [], 'int', 'value', True)
    g = CGen(ch, sch, [s for s in sigs if s.pure and s.kind != 'iop'], dsig, dict(call_rate=0.3))
    case['derived'] = {'d': [['assign', ['attr', ['self'], 'd'], ['bin', '+', ['attr', ['self'], 'i'], g.expr('int', 1)]]]}
    case['callables'] = [s.as_dict() for s in sigs]
    entry = rng.choice(sigs)
    args = {}
    for n, t in entry.params:
        args[n] = rng.choice([1, 2, 2, 3]) if n == 'd' else dict(integer=rng.choice([0, 1, 5]), string=rng.choice(['', 'x', 'yz']),
                                                                 boolean=rng.choice([True, False]))[t]
    case['entry'] = dict(kind=entry.kind, name=entry.name, owner=entry.owner, args=args, this=rng.randrange(3) if entry.kind == 'iop' else None)
    del case['population']
    return case
