"""C15 program space: BridgePoint models with functions, bridges (external entity EX), class-based and instance-based
operations and a derived attribute whose OAL bodies call each other (call graphs), plus enumerations and constants.
A *case* is a JSON-able description (signatures + body trees + entry invocation + population + row order); `build` turns it
into model text (rows as BridgePoint writes them), `run_real` loads it with the real loader / mk_component and invokes the
entry from Python, `run_reference` evaluates it with ref_oal.Machine.

A case with `wide: true` uses a larger model: bridges may belong to any external entity (owner EX, EY, ...), A is reflexive
over R3 ('leads' / 'follows'), and there is a third class with key letters T (attributes t_id, i, n; R5: A one-to-many T) whose
*name* (O_OBJ.Name, `twin_name`, default 'A') equals the name of class A - class names need not be unique, key letters are.
Operations may be owned by A, B or T; derived attributes (all integer) are keyed '<name>' (class A) or '<class>.<name>'.
The elements of a model are identified by kind + owner + name: equal names in different owners / kinds are different elements.
An entry of kind 'sequence' invokes its `steps` one after the other from Python on one population (result: the list of results)."""
import random

import vlib.fresh_ply  # noqa: F401
import xtuml

from bounded import _c04_bp as bp
from bounded import _c04_gen as G
from bounded import ref_oal as R

TYPE_NAME = dict(int='integer', str='string', bool='boolean')
TY = dict(integer='int', string='str', boolean='bool')
ENUMS = {'Color': ['red', 'green', 'blue'], 'Mode': ['off', 'on']}
CONSTS = [('K1', 'integer', '5'), ('K2', 'integer', '12'), ('KS', 'string', 'abc'), ('KB', 'boolean', 'true'), ('KF', 'boolean', 'false')]
CONST_VALUES = dict(K1=5, K2=12, KS='abc', KB=True, KF=False)

POPULATION = dict(
    A=[dict(a_id=1, i=1, s='x', b=True), dict(a_id=2, i=2, s='y', b=False), dict(a_id=3, i=3, s='x', b=True)],
    B=[dict(b_id=11, n=10, t='p'), dict(b_id=12, n=20, t='q'), dict(b_id=13, n=30, t='p')],
    links=dict(R1=[[0, 0], [0, 1], [1, 2]]))
# wide cases: R3 chains A[2] -> A[0] -> A[3] -> A[4] ('leads' reaches the predecessor), A[1] stands alone; A[0] has two T, A[3] one
POPULATION_WIDE = dict(
    A=POPULATION['A'] + [dict(a_id=4, i=4, s='', b=False), dict(a_id=5, i=5, s='y', b=True)],
    B=POPULATION['B'] + [dict(b_id=14, n=40, t='')],
    T=[dict(t_id=31, i=6, n=100), dict(t_id=32, i=7, n=200), dict(t_id=33, i=8, n=300), dict(t_id=34, i=9, n=400)],
    links=dict(R1=[[0, 0], [0, 1], [1, 2], [3, 3]], R3=[[2, 0], [0, 3], [3, 4]], R5=[[0, 1], [0, 0], [3, 2]]))
DEFAULT_OWNER = dict(function=None, bridge='EX', cop='A', iop='A', derived='A')


def default_population(case):
    return case.get('population') or (POPULATION_WIDE if case.get('wide') else POPULATION)


def derived_items(case):
    """[(class, name, body)] of the derived attributes of a case (keys '<name>' = class A, or '<class>.<name>')."""
    out = []
    for key, body in sorted((case.get('derived') or {}).items()):
        cls, _, name = key.rpartition('.')
        out.append((cls or 'A', name, body))
    return out


def element_key(kind, owner, name):
    """Name of an action in `bodies` (unchanged for the elements of the small model)."""
    if owner in (None, DEFAULT_OWNER.get(kind)):
        return '%s %s' % (kind, name) if kind != 'derived' else 'derived A.%s' % name
    return '%s %s.%s' % (kind, owner, name) if kind == 'derived' else '%s %s::%s' % (kind, owner, name)


# ------------------------------------------------------------------------------------------------- case -> model / schema
def make_schema(case):
    s = R.Schema()
    derived = case.get('derived') or {}
    s.classes['A'] = [R.Attr('a_id', 'unique_id', 'id'), R.Attr('i', 'integer'), R.Attr('s', 'string'), R.Attr('b', 'boolean')]
    s.classes['B'] = [R.Attr('b_id', 'unique_id', 'id'), R.Attr('n', 'integer'), R.Attr('t', 'string'),
                      R.Attr('a_id', 'unique_id', 'ref', 'R1', 'a_id', 'A')]
    s.rels['R1'] = R.Rel('R1', 'simple', 'A', 'B', form_many=True)
    if case.get('wide'):
        s.classes['A'].append(R.Attr('prev_id', 'unique_id', 'ref', 'R3', 'a_id', 'A'))
        s.classes['T'] = [R.Attr('t_id', 'unique_id', 'id'), R.Attr('i', 'integer'), R.Attr('n', 'integer'),
                          R.Attr('a_id', 'unique_id', 'ref', 'R5', 'a_id', 'A')]
        s.rels['R3'] = R.Rel('R3', 'simple', 'A', 'A', part_phrase='leads', form_phrase='follows')
        s.rels['R5'] = R.Rel('R5', 'simple', 'A', 'T', form_many=True)
    for cls, name, body in derived_items(case):
        s.classes[cls].append(R.Attr(name, 'integer', 'derived', body=body))
    for c in case['callables']:
        params = [(n, t) for n, t in c['params']]
        call = R.Callable_(c['kind'], c['name'], params, c['ret'], c['body'], c.get('owner'))
        if c['kind'] == 'function':
            s.functions[c['name']] = call
        elif c['kind'] == 'bridge':
            s.bridges[(c['owner'], c['name'])] = call
        else:
            s.operations[(c['owner'], c['name'])] = call
    for name, items in (case.get('enums') or ENUMS).items():
        s.enums[name] = list(items)
    for name, ty, text in (case.get('consts') or CONSTS):
        s.consts[name] = dict(integer=int, string=str, boolean=lambda t: t.lower() == 'true')[ty](text)
    return s


def body_list(case):
    """[(key, body tree)] of every action of the case, in a fixed order."""
    out = [(element_key(c['kind'], c.get('owner'), c['name']), c['body']) for c in case['callables']]
    out += [(element_key('derived', cls, name), body) for cls, name, body in derived_items(case)]
    return out


def keywords(case, style=None):
    """The keyword occurrences of all actions, in the order of body_list (C08 re-spells them by this index)."""
    return [str(p) for _, tree in body_list(case) for p in R.pieces(tree, style) if isinstance(p, R.K)]


def bodies(case, style=None, casing=None):
    """OAL text of every action of the case.  casing: {index of the keyword occurrence over all actions: spelling}."""
    out, n = {}, 0
    for key, tree in body_list(case):
        fn = (lambda i, kw, n=n: casing.get(n + i, kw)) if casing else None
        out[key] = R.render(tree, style, fn)
        n += R.count_keywords(tree, style)
    return out


def build(case, style=None, casing=None):
    """BPModel of the case."""
    m = bp.BPModel('C15')
    derived = case.get('derived') or {}
    texts = bodies(case, style, casing)
    dattrs = dict((c, []) for c in 'ABT')
    for cls, name, _ in derived_items(case):
        dattrs[cls].append((name, 'integer', texts[element_key('derived', cls, name)]))
    m.klass('A', [('a_id', 'unique_id'), ('i', 'integer'), ('s', 'string'), ('b', 'boolean')] + dattrs['A'])
    m.klass('B', [('b_id', 'unique_id'), ('n', 'integer'), ('t', 'string')] + dattrs['B'])
    m.simple(1, 'B', 'A', 'a_id', 'a_id', form_many=True)
    if case.get('wide'):
        m.klass('T', [('t_id', 'unique_id'), ('i', 'integer'), ('n', 'integer')] + dattrs['T'], name=case.get('twin_name', 'A'))
        m.simple(3, 'A', 'A', 'a_id', 'prev_id', form_many=False, form_phrase='follows', part_phrase='leads')
        m.simple(5, 'T', 'A', 'a_id', 'a_id', form_many=True)
    bridges = {}
    for c in case['callables']:
        params = tuple((n, t) for n, t in c['params'])
        ret = TYPE_NAME.get(c['ret'], 'void')
        text = texts[element_key(c['kind'], c.get('owner'), c['name'])]
        if c['kind'] == 'function':
            m.function(c['name'], text, params, ret)
        elif c['kind'] == 'bridge':
            bridges.setdefault(c['owner'], []).append((c['name'], text, params, ret))
        else:
            m.operation(c['owner'], c['name'], text, params, ret, instance_based=(c['kind'] == 'iop'))
    for ee in sorted(bridges):
        m.external_entity(ee, bridges[ee])
    enum_rows = {}
    for name, items in sorted((case.get('enums') or ENUMS).items()):
        enum_rows[name] = m.enumeration(name, items)
    m.constants('CS', case.get('consts') or CONSTS)
    return m, enum_rows


def row_order(case, nrows, enum_rows):
    """Order of the INSERT statements: None (as generated), 'reverse', 'shuffle:<seed>', 'enum-reverse',
    'enum-perm:<name>:<i,j,k>' (only the S_ENUM rows of one enumeration permuted among their positions)."""
    spec = case.get('rows')
    order = list(range(nrows))
    if not spec:
        return None
    if spec == 'reverse':
        return order[::-1]
    if spec.startswith('shuffle:'):
        random.Random(spec).shuffle(order)
        return order
    if spec == 'enum-reverse':
        for rows in enum_rows.values():
            for a, b in zip(rows, rows[::-1]):
                order[a] = b
        return order
    if spec.startswith('enum-perm:'):
        _, name, perm = spec.split(':')
        rows = enum_rows[name]
        for pos, k in zip(rows, [int(x) for x in perm.split(',')]):
            order[pos] = rows[k]
        return order
    raise ValueError(spec)


def load(case, style=None, casing=None):
    m, enum_rows = build(case, style, casing)
    text = m.sql(row_order(case, len(m.rows), enum_rows))
    mm, domain = bp.load(text)
    return domain


# ------------------------------------------------------------------------------------------------- running
def find_callable(case, entry):
    for c in case['callables']:
        if c['kind'] == entry['kind'] and c['name'] == entry['name'] and c.get('owner') == entry.get('owner'):
            return c
    raise KeyError(entry)


def run_reference(case, logic='strict', where_effects=False):
    """(result, snapshot, machine) of the entry invocation; raises OutOfDomain."""
    sch = make_schema(case)
    w = G.populate_ref(sch, default_population(case))
    m = R.Machine(w, max_steps=4000, max_depth=12, max_calls=60, logic=logic, where_effects=where_effects)
    try:
        return G.with_timeout(lambda: _run_reference(case, sch, w, m), 10.0)
    except G.Timeout:
        raise R.OutOfDomain('reference evaluation exceeds its time budget')


def _run_reference(case, sch, w, m):
    rows = dict((cls, list(w.extent[cls])) for cls in w.extent)       # `this` counts the instances of the initial population
    return _reference_entry(case, sch, rows, m, case['entry']), R.snapshot(w), m


def _reference_entry(case, sch, rows, m, e):
    if e['kind'] == 'sequence':
        return [_reference_entry(case, sch, rows, m, step) for step in e['steps']]
    this = rows[e.get('owner') or 'A'][e['this']] if e.get('this') is not None else None
    if e['kind'] == 'derived':
        return m.expr(['attr', ['self'], e['name']], R.Frame(None, m.live(this)))
    if e['kind'] == 'symbol':
        return sch.consts[e['name']] if e['name'] in sch.consts else None
    c = find_callable(case, e)
    call = (sch.functions.get(c['name']) if c['kind'] == 'function' else
            sch.bridges.get((c['owner'], c['name'])) if c['kind'] == 'bridge' else sch.operations[(c['owner'], c['name'])])
    return m.call(call, dict(e['args']), m.live(this) if this is not None else None)


def invoke(domain, rows, entry):
    """Invoke the entry from Python the way a user of mk_component does."""
    args = dict(entry.get('args') or {})
    kind = entry['kind']
    if kind == 'sequence':
        return [invoke(domain, rows, step) for step in entry['steps']]
    if kind == 'function':
        return domain.find_symbol(entry['name'])(**args)
    if kind == 'bridge':
        return getattr(domain.find_symbol(entry['owner']), entry['name'])(**args)
    if kind == 'cop':
        return getattr(domain.find_class(entry['owner']), entry['name'])(**args)
    if kind == 'iop':
        return getattr(rows[entry.get('owner') or 'A'][entry['this']], entry['name'])(**args)
    if kind == 'derived':
        return getattr(rows[entry.get('owner') or 'A'][entry['this']], entry['name'])
    raise KeyError(kind)


def run_real(case, style=None, casing=None):
    """(result, snapshot, error) of the entry invocation on the Domain mk_component builds from the model text."""
    sch = make_schema(case)
    try:
        domain = load(case, style, casing)
    except Exception as e:
        return None, None, 'loading the model: %s: %s' % (type(e).__name__, e)
    rows = G.populate_real(domain, sch, default_population(case))
    try:
        result = G.with_timeout(lambda: invoke(domain, rows, case['entry']), 8.0)
    except G.Timeout:
        return None, None, 'timeout'
    except Exception as e:
        return None, None, '%s: %s' % (type(e).__name__, e)
    return result, G.snapshot_real(domain, sch), None


def check_case(case):
    """None when the case is outside the property, else [(clause, observed, required)] ([] = passes)."""
    try:
        ref_result, ref_snap, machine = run_reference(case)
    except R.OutOfDomain:
        return None
    result, snap, err = run_real(case)
    required = dict(returns=G.plain(ref_result))
    clause = 'call-result-and-final-population'
    if 'bare-return' in machine.events:
        clause = 'bare-return-delivers-nothing'
    elif case.get('rows') and 'enum-read' in machine.events:
        clause = 'enumerator-modeled-order'
    elif case.get('rows'):
        clause = 'row-order-independent'
    elif case.get('clause'):
        clause = case['clause']
    if err == 'timeout':
        what = 'no result within 8 s of CPU time (the reference makes at most 60 invocations)'
        if clause == 'enumerator-modeled-order':      # e.g. a loop bound computed from an enumerator
            return [(clause, what, required)]
        return [('bounded-time', what, 'terminates')]
    if err:
        return [(clause, err, required)]
    diff = G.differences(ref_result, ref_snap, result, snap)
    if diff:
        return [(clause, diff[:6], dict(returns=G.plain(ref_result), population=G.plain(ref_snap)))]
    return []


# ------------------------------------------------------------------------------------------------- generator
class Sig(object):
    def __init__(self, kind, name, owner, params, ret, form, pure):
        self.kind, self.name, self.owner, self.params, self.ret, self.form, self.pure = kind, name, owner, params, ret, form, pure
        self.body = None

    def as_dict(self):
        return dict(kind=self.kind, name=self.name, owner=self.owner, params=[list(p) for p in self.params], ret=self.ret,
                    form=self.form, pure=self.pure, body=self.body)


BODY_PROFILE = dict(ints=[0, 1, 2], strs=['x', ''], depth=2, chain=1, prelude=0.3, where=0.5, elifs=[0, 0, 1], else_=0.4,
                    kinds=dict(assign_var=4, assign_attr=2, create=1, selfrom=2, selrel=1, if_=2, while_=1, for_=1.5, return_=0.7,
                               call=4, break_=0.3, continue_=0.3))


class CGen(G.Gen):
    """Body generator: C04's generator plus parameters, self, enumerators, constants and invocations."""

    def __init__(self, chooser, sch, sigs, me, profile=None):
        prof = dict(BODY_PROFILE)
        prof.update(profile or {})
        if me is not None and me.pure:
            kinds = dict(prof['kinds'])
            kinds['assign_attr'] = kinds['create'] = 0
            prof['kinds'] = kinds
        if me is not None and me.pure:
            prof['prelude_no_create'] = True
        G.Gen.__init__(self, chooser, prof, sch)
        self.sigs, self.me = sigs, me
        self.calls_left = 3
        self.ret = me.ret if me is not None else 'int'
        self.has_self = me is not None and me.kind in ('iop', 'derived')
        self.self_cls = (me.owner or 'A') if self.has_self else None
        self.pure_only = me is not None and me.pure
        self.derived_names = dict((cls, [a.name for a in attrs if a.kind == 'derived']) for cls, attrs in sch.classes.items())

    # -- expressions -------------------------------------------------------------------------------------------
    def atoms(self, ty, sel):
        out = G.Gen.atoms(self, ty, sel)
        if self.me is not None:
            out += [['param', n] for n, t in self.me.params if TY[t] == ty and n != 'd']
        if self.has_self:
            out += [['attr', ['self'], a] for a in self.attrs_of(self.self_cls, ty)]
        if ty == 'int' and not (self.me is not None and self.me.kind == 'derived'):
            for cls in sorted(self.derived_names):                              # derived attributes (A.d, in wide cases more)
                for d in self.derived_names[cls]:
                    out += [['attr', ['var', n], d] for n in self.visible(cls)]
                    if sel == cls:
                        out.append(['attr', ['selected'], d])
                    if self.self_cls == cls:
                        out.append(['attr', ['self'], d])
        if ty == 'int':
            out += [['enum', 'Color', 'green'], ['enum', 'Color', 'blue'], ['enum', 'Mode', 'on'], ['const', 'K1']]
        elif ty == 'str':
            out += [['const', 'KS']]
        elif ty == 'bool':
            out += [['const', 'KB']]
        return out

    def callees(self, ret, pure):
        out = []
        for s in self.sigs:
            if s.ret != ret or (pure and not s.pure):
                continue
            if s.kind == 'iop' and not self.receivers(s):
                continue
            out.append(s)
        return out

    def receivers(self, sig):
        """Handles an instance-based operation of sig's class can be invoked on."""
        return [['var', v] for v in self.visible(sig.owner)] + ([['self']] if self.self_cls == sig.owner else [])

    def expr(self, ty, depth, sel=None):
        if self.calls_left > 0 and ty in ('int', 'str', 'bool') and depth >= 0:
            cands = self.callees(ty, bool(sel) or self.pure_only)
            if cands and self.ch.chance(self.p.get('call_rate', 0.3)):
                self.calls_left -= 1
                return self.call_expr(self.ch.pick(cands), depth, sel)
        return G.Gen.expr(self, ty, depth, sel)

    def call_expr(self, sig, depth, sel=None):
        args = []
        for n, t in sig.params:
            if n == 'd':
                e = ['bin', '-', ['param', 'd'], ['int', 1]] if self.me is not None and self.me.kind != 'derived' else ['int', 1]
            else:
                e = self.expr(TY[t], max(depth - 1, 0), sel)
            args.append([n, e])
        if self.ch.chance(0.5):
            args.reverse()                   # parameters are bound by name, not by position
        if sig.kind == 'function':
            return ['fcall', sig.name, args]
        if sig.kind == 'bridge':
            return ['bcall', sig.owner, sig.name, args]
        if sig.kind == 'cop':
            return ['ccall', sig.owner, sig.name, args]
        return ['icall', self.ch.pick(self.receivers(sig)), sig.name, args]

    # -- statements --------------------------------------------------------------------------------------------
    def st_assign_var(self, in_loop, depth):
        """As in C04, but now and then the local variable is named like a parameter of the same type: param.<name> and the
        variable <name> are different things (parameters are bound by name, locals live in the body's scope)."""
        own = [(n, TY[t]) for n, t in (self.me.params if self.me is not None else []) if n != 'd']
        if own and self.ch.chance(self.p.get('shadow', 0.35)):
            name, ty = self.ch.pick(own)
            e = self.expr(ty, self.p['depth'])
            if e is not None and all(sc.get(name, ty) == ty for sc in self.scopes):
                self.declare(name, ty)
                return [['assign', ['var', name], e]]
        return G.Gen.st_assign_var(self, in_loop, depth)

    def st_call(self, in_loop, depth):
        cands = [s for s in self.sigs if (s.pure or not self.pure_only) and (s.kind != 'iop' or self.receivers(s))]
        if not cands or self.calls_left <= 0:
            return None
        self.calls_left -= 1
        return [['call', self.call_expr(self.ch.pick(cands), self.p['depth'])]]

    def st_assign_attr(self, in_loop, depth):
        targets = [(['var', n], c) for n, c in self.visible_insts()] + ([(['self'], self.self_cls)] if self.has_self and self.me.kind == 'iop' else [])
        if not targets:
            return None
        h, cls = self.ch.pick(targets)
        a = self.ch.pick([a for a in self.s.classes[cls] if a.kind == 'plain'])
        e = self.expr(G.TYPE_OF[a.ty], self.p['depth'])
        return None if e is None else [['assign', ['attr', h, a.name], e]]

    def st_selrel(self, in_loop, depth):
        if self.has_self and self.ch.chance(0.5):
            to, rel, phrase, to_many = self.ch.pick(self.steps[self.self_cls])
            card = self.ch.pick(['any', 'many']) if to_many else 'one'
            name = self.ch.pick(G.VARS[to + '*' if card == 'many' else to])
            w = self.where(to)
            self.declare(name, to + '*' if card == 'many' else to)
            return [['selrel', card, name, ['self'], [[to, rel, phrase]], w]]
        if not self.visible_insts() and not self.visible_sets():
            return None
        return G.Gen.st_selrel(self, in_loop, depth)

    def st_return_(self, in_loop, depth):
        if self.me is None or self.me.form == 'fall':
            return None
        if self.me.form == 'bare':
            return [['return', None]]
        e = self.expr(self.me.ret, self.p['depth'])
        return None if e is None else [['return', e]]

BASE_VALUES = dict(int=[['int', 0], ['int', 7]], str=[['str', ''], ['str', 'base']], bool=[['bool', True], ['bool', False]])


def gen_body(ch, sch, sigs, me, statements):
    g = CGen(ch, sch, sigs, me)
    pre = g.prelude()
    g.budget = statements
    body = []
    while g.budget > 0:
        body += g.statement(False, 0)
    if me.form == 'value':
        e = g.expr(me.ret, g.p['depth'])
        tail = [['return', e]]
        guard = [['if', ['bin', '<=', ['param', 'd'], ['int', 0]], [['return', ch.pick(BASE_VALUES[me.ret])]], [], None]]
        return guard + pre + body + tail
    if me.form == 'bare':
        guard = [['if', ['bin', '<=', ['param', 'd'], ['int', 0]], [['return', None]], [], None]]
        return guard + pre + body + ([['return', None]] if ch.chance(0.5) else [])
    return [['if', ['bin', '>', ['param', 'd'], ['int', 0]], pre + body, [], None]]


PARAM_NAMES = (('n', 'x', 'y'), 'integer'), (('t', 'u'), 'string'), (('c', 'p'), 'boolean')


# ------------------------------------------------------------------------------------------------- derived attribute bodies
# Bodies of derived attributes that read or assign an attribute of the *same name* on other instances.  `name` is the derived
# attribute; on the other instance it is the same derived attribute (another instance of the class: recursion), a derived
# attribute of the other class with a body of its own, or an ordinary attribute (B.n, T.n).
def _self(name):
    return ['attr', ['self'], name]


def derived_body(form, name, k=1):
    own, X, O = _self(name), ['var', 'x'], ['var', 'o']

    def sum_over(var, setvar, cls, rel, where=None):
        return [['selrel', 'many', setvar, ['self'], [[cls, rel, None]], where],
                ['for', var, setvar, [['assign', X, ['bin', '+', X, ['attr', ['var', var], name]]]]]]
    if form == 'own':               # class A or T: no other instance involved
        return [['assign', own, ['bin', '+', ['bin', '*', _self('i'), ['int', 2]], ['int', k]]]]
    if form == 'up':                # recursion over R3 toward the predecessor: the depth of the instance in its chain
        return [['selrel', 'one', 'o', ['self'], [['A', 'R3', 'leads']], None],
                ['if', ['un', 'empty', O], [['assign', own, ['int', k]]], [], [['assign', own, ['bin', '+', ['attr', O, name], ['int', 1]]]]]]
    if form == 'down':              # recursion toward the successor, reading the own value assigned before
        return [['assign', own, _self('i')], ['selrel', 'one', 'o', ['self'], [['A', 'R3', 'follows']], None],
                ['if', ['un', 'not_empty', O], [['assign', own, ['bin', '+', ['bin', '*', ['attr', O, name], ['int', 10]], own]]], [], None]]
    if form == 'first-then':        # assigned first, then replaced by a value computed from the predecessor's
        return [['assign', own, ['int', 5 + k]], ['selrel', 'one', 'o', ['self'], [['A', 'R3', 'leads']], None],
                ['if', ['un', 'not_empty', O], [['assign', own, ['bin', '+', ['attr', O, name], ['int', 1]]]], [], None]]
    if form == 'peer':              # another instance of the class found by a where clause (recursion ends at the smallest i)
        return [['selfrom', 'any', 'o', 'A', ['bin', '==', ['attr', ['selected'], 'i'], ['bin', '-', _self('i'), ['int', 1]]]],
                ['if', ['un', 'empty', O], [['assign', own, _self('i')]], [], [['assign', own, ['bin', '+', ['bin', '*', ['attr', O, name], ['int', 2]], _self('i')]]]]]
    if form == 'sum-B':             # local accumulator over the related instances of another class
        return [['assign', X, ['int', k]]] + sum_over('b1', 'bs1', 'B', 'R1') + [['assign', own, X]]
    if form == 'acc-B':             # the attribute itself accumulates
        return [['assign', own, ['int', k]], ['selrel', 'many', 'bs1', ['self'], [['B', 'R1', None]], None],
                ['for', 'b1', 'bs1', [['assign', own, ['bin', '+', own, ['attr', ['var', 'b1'], name]]]]]]
    if form == 'where-B':           # the equally named attribute of the other class in a where clause
        return [['selrel', 'many', 'bs1', ['self'], [['B', 'R1', None]], ['bin', '>=', ['attr', ['selected'], name], ['int', 10 * k]]],
                ['assign', own, ['bin', '+', ['bin', '*', ['un', 'cardinality', ['var', 'bs1']], ['int', 10]], ['int', k]]]]
    if form == 'write-B':           # assigns the equally named attribute of the other instance
        B1 = ['var', 'b1']
        return [['selrel', 'any', 'b1', ['self'], [['B', 'R1', None]], None],
                ['if', ['un', 'not_empty', B1], [['assign', ['attr', B1, name], ['bin', '+', ['attr', B1, name], ['int', k]]],
                                                 ['assign', own, ['bin', '*', ['attr', B1, name], ['int', 10]]]], [], [['assign', own, ['un', '-', ['int', 1]]]]]]
    if form == 'sum-T':             # over R5: T.<name> is an ordinary attribute or a derived one with a body of its own
        return [['assign', X, _self('i')]] + sum_over('t1', 'ts1', 'T', 'R5') + [['assign', own, X]]
    if form == 'T-up':              # class T: from the instance of A it belongs to
        return [['selrel', 'one', 'o', ['self'], [['A', 'R5', None]], None],
                ['if', ['un', 'empty', O], [['assign', own, _self('i')]], [], [['assign', own, ['bin', '+', ['bin', '*', ['attr', O, name], ['int', 100]], _self('i')]]]]]
    raise KeyError(form)


A_FORMS_ANY = ('up', 'down', 'first-then', 'peer')         # A.<any name>: other instances of A
A_FORMS_N = ('sum-B', 'acc-B', 'where-B', 'write-B')       # A.n: B.n is an ordinary attribute


def gen_wide_derived(rng):
    """Derived attributes of a random wide case: A.d, sometimes T.d and A.n."""
    out = {}
    form = rng.choice(A_FORMS_ANY + ('own', 'sum-T'))
    out['d'] = derived_body(form, 'd', rng.randint(0, 2))
    if form == 'sum-T' or rng.random() < 0.5:               # T.d: another class of the same name with an attribute of the same name
        out['T.d'] = derived_body('own' if form == 'sum-T' or rng.random() < 0.5 else 'T-up', 'd', rng.randint(3, 5))
    if rng.random() < 0.5:
        out['n'] = derived_body(rng.choice(A_FORMS_N + ('sum-T', 'up', 'sum-B')), 'n', rng.randint(0, 2))
    return out


def gen_case(rng, bare_rate=0.12, wide_rate=0.4):
    """One random call graph with an entry invocation.  About wide_rate of the cases use the wide model: elements with equal
    names (bridges of EX and EY and functions named N1 / N2, operations of A and T named O1..O3), derived attributes that
    look at other instances, several invocations from Python in a row."""
    ch = G.RandomChooser(rng)
    wide = rng.random() < wide_rate
    sigs = []
    counts = {}
    taken = set()
    for _ in range(rng.randint(2, 5)):
        kind = rng.choice(['function', 'function', 'bridge', 'cop', 'iop', 'iop'])
        counts[kind] = counts.get(kind, 0) + 1
        name = dict(function='F', bridge='G', cop='C', iop='I')[kind] + str(counts[kind])
        owner = dict(function=None, bridge='EX', cop='A', iop='A')[kind]
        if wide:
            for _ in range(6):
                if kind in ('function', 'bridge'):
                    name, owner = 'N%d' % rng.randint(1, 2), (rng.choice(['EX', 'EY']) if kind == 'bridge' else None)
                else:
                    name, owner = 'O%d' % rng.randint(1, 3), rng.choice(['A', 'A', 'T'])
                if (kind in ('cop', 'iop'), kind == 'bridge', owner, name) not in taken:
                    break
            else:
                continue
            taken.add((kind in ('cop', 'iop'), kind == 'bridge', owner, name))
        # parameter names: n / t / c or a name the bodies also use for local variables (x y u p)
        params = [('d', 'integer')] + [(rng.choice(names), ty) for names, ty in PARAM_NAMES if rng.random() < 0.5]
        r = rng.random()
        if r < bare_rate:
            ret, form = None, 'bare'
        elif r < bare_rate + 0.15:
            ret, form = None, 'fall'
        else:
            ret, form = rng.choice(['int', 'int', 'str', 'bool']), 'value'
        pure = form == 'value' and rng.random() < 0.5
        sigs.append(Sig(kind, name, owner, params, ret, form, pure))
    case = dict(callables=[], derived={}, rows=None)
    if wide:
        case['wide'] = True
        case['derived'] = gen_wide_derived(rng)
    else:
        case['derived'] = {'d': []}
    shell = dict(case, callables=[dict(s.as_dict(), body=[]) for s in sigs])
    sch = make_schema(shell)
    for s in sigs:
        s.body = gen_body(ch, sch, sigs, s, rng.randint(1, 4))
    if not wide:
        dsig = Sig('derived', 'd', 'A', [], 'int', 'value', True)
        g = CGen(ch, sch, [s for s in sigs if s.pure and s.kind != 'iop'], dsig, dict(call_rate=0.3))
        case['derived'] = {'d': [['assign', ['attr', ['self'], 'd'], ['bin', '+', ['attr', ['self'], 'i'], g.expr('int', 1)]]]}
    case['callables'] = [s.as_dict() for s in sigs]
    pop = default_population(case)

    def one_entry():
        if wide and rng.random() < 0.3:
            cls, name, _ = rng.choice(derived_items(case))
            return dict(kind='derived', name=name, owner=cls, args={}, this=rng.randrange(len(pop[cls])))
        entry = rng.choice(sigs)
        args = {}
        for n, t in entry.params:
            args[n] = rng.choice([1, 2, 2, 3]) if n == 'd' else dict(integer=rng.choice([0, 1, 5]), string=rng.choice(['', 'x', 'yz']),
                                                                     boolean=rng.choice([True, False]))[t]
        return dict(kind=entry.kind, name=entry.name, owner=entry.owner, args=args,
                    this=rng.randrange(len(pop[entry.owner])) if entry.kind == 'iop' else None)
    if wide and rng.random() < 0.7:
        case['entry'] = dict(kind='sequence', steps=[one_entry() for _ in range(rng.randint(2, 3))])
    else:
        case['entry'] = one_entry()
    return case
