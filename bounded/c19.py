"""C19 (bounded tier) -- New instances get typed defaults and fresh non-null identifiers.

Code under test: xtuml.MetaModel.new / MetaClass.new / MetaClass.default_value and the id generators of
xtuml.tools (IdGenerator.peek/next, IntegerGenerator, UUIDGenerator), all on the real code of /repo.

Oracle (from the property text): per attribute the expected value is the keyword argument when given, else the
positional argument at the attribute's index when given, else the default of the attribute's type
(false, 0, 0.0, ''); a defaulted unique id must be a value handed out by the metamodel's generator, not null
(None / 0) and different from every other defaulted id of the metamodel.

Clauses
  typed-default                    omitted non-referential attribute of type boolean/integer/real/string
  positional-then-keyword          value given positionally / by keyword (keyword wins)
  defaulted-id-from-generator      defaulted unique ids, in draw order (creation order, then attribute order), are a
                                   subsequence of the values the metamodel's generator handed out, each used once
  defaulted-id-not-null            a defaulted unique id is neither None nor 0
  defaulted-id-fresh               no two defaulted unique ids of one metamodel are equal
  integer-generator-consecutive    integer generator, no id ever given explicitly: the defaulted ids are 1, 2, 3, ...
  integer-generator-yields-1-2-3   next() of IntegerGenerator
  peek-never-advances              interleaved peek/next: the values returned by next() are those of a run without
                                   peeks, repeated peeks agree, and a peek equals the following next()
  generator-values-in-order        user-supplied generator: next() returns exactly what its readfunc produced, in order
  uuid-generator-nonzero-distinct  UUIDGenerator
  creation-raised                  new() on a class whose attributes all have core types (any spelling) raised
  unknown-type-rejected            attribute of unknown type: MetaException (default_value, and new() when omitted)

Not checked: referential
attributes (C02/C03); keyword names in another letter case than declared (C10).
"""
import itertools

import vlib.fresh_ply  # noqa: F401
import xtuml
from vlib.bounded import item

CORE = ('BOOLEAN', 'INTEGER', 'REAL', 'STRING', 'UNIQUE_ID')
DEFAULTS = {'BOOLEAN': False, 'INTEGER': 0, 'REAL': 0.0, 'STRING': ''}
UNKNOWN_TYPES = ('FOO', 'inst_ref<A>', 'date', 'UNIQUEID', 'INT', 'unique id', '')


def spell(ty, k):
    """k-th spelling of a type name."""
    k %= 4
    if k == 0:
        return ty
    if k == 1:
        return ty.lower()
    if k == 2:
        return ty.capitalize()
    return ''.join(c.lower() if i % 2 else c.upper() for i, c in enumerate(ty))


def same_value(a, b):
    """Equal and of the same Python type (False/0/0.0 are all == in Python)."""
    return type(a) is type(b) and a == b


SCRIPT = [1000, 7, 555, 3, 90, 12, 77, 31337, 2, 64, 800, 41, 19, 23, 5000, 6, 11, 13, 17, 29]


def make_generator(kind, log):
    """The metamodel's generator.  log['next'] receives every value handed out through next(), log['read'] every
    value produced by the generator's readfunc (the documented extension point of IdGenerator)."""
    if kind == 'integer':
        base = xtuml.IntegerGenerator
    elif kind == 'uuid':
        base = xtuml.UUIDGenerator
    elif kind == 'user':
        class base(xtuml.IdGenerator):
            _n = 0

            def readfunc(self):
                v = SCRIPT[self._n % len(SCRIPT)] + 100000 * (self._n // len(SCRIPT))
                self._n += 1
                return v
    else:
        raise ValueError(kind)

    class Logged(base):
        def readfunc(self):
            v = base.readfunc(self)
            log['read'].append(v)
            return v

        def next(self):
            v = base.next(self)
            log['next'].append(v)
            return v

    return Logged()


def is_subsequence(values, pool):
    j = 0
    for v in values:
        while j < len(pool) and not same_value(pool[j], v):
            j += 1
        if j == len(pool):
            return False
        j += 1
    return True


# ------------------------------------------------------------------ creation histories

def explicit_value(ty, salt):
    ty = ty.upper()
    if ty == 'BOOLEAN':
        return True
    if ty == 'INTEGER':
        return 40 + salt
    if ty == 'REAL':
        return 2.5 + salt
    if ty == 'STRING':
        return 's%d' % salt
    return 900000 + salt      # an id chosen by the caller


def apply_edit(schema, edit):
    """The oracle's own record of a schema edit (schema: list of [name, type] in attribute order), as documented for
    MetaClass.append_attribute / insert_attribute (list.insert semantics of the index) / delete_attribute (by name)."""
    if edit[0] == 'append':
        schema.append([edit[2], edit[3]])
    elif edit[0] == 'insert':
        schema.insert(edit[2], [edit[3], edit[4]])
    elif edit[0] == 'delete':
        for i, (n, _) in enumerate(schema):
            if n == edit[2]:
                del schema[i]
                break
    else:
        raise ValueError(edit)


def evaluate_history(case):
    """case: dict(gen=kind, classes=[[ [name, type], ...], ...], ref=bool, creations=[[class_index, npos, [kw indices], how], ...])
    or, instead of creations, steps=[...] where a step is a creation ['new', class_index, npos, [kw indices], how] or a schema
    edit ['append', class_index, name, type] / ['insert', class_index, index, name, type] / ['delete', class_index, name].
    Attributes are judged by the type they have at the time of the creation."""
    out = []
    log = {'next': [], 'read': []}
    m = xtuml.MetaModel(make_generator(case['gen'], log))
    classes = case['classes']
    schema = {}
    for ci, attrs in enumerate(classes):
        m.define_class('K%d' % ci, [tuple(a) for a in attrs])
        schema[ci] = [list(a) for a in attrs]
    referential = {}
    if case.get('ref'):
        # class K0 gets a referential attribute in front: K0.Ref -> T.Id ; it stays unrelated
        m.define_class('T', [('Id', 'INTEGER')])
        m.find_metaclass('K0').insert_attribute(case.get('ref_pos', 0), 'Ref', 'INTEGER')
        schema[0].insert(case.get('ref_pos', 0), ['Ref', 'INTEGER'])
        ass = m.define_association(1, 'K0', ['Ref'], True, True, '', 'T', ['Id'], False, True, '')
        ass.formalize()
        referential[0] = 'Ref'
    defaulted = []          # defaulted unique ids in draw order
    any_explicit_id = False
    steps = case['steps'] if 'steps' in case else [['new'] + list(c) for c in case['creations']]
    for step, st in enumerate(steps):
        if st[0] != 'new':
            mc = m.find_metaclass('K%d' % st[1])
            added = st[2] if st[0] == 'append' else (st[3] if st[0] == 'insert' else None)
            if added is not None and added.upper() in [n.upper() for n, _ in schema[st[1]]]:
                return out      # two attributes of one name: outside the space (the property does not say which type counts)
            try:
                if st[0] == 'append':
                    mc.append_attribute(st[2], st[3])
                elif st[0] == 'insert':
                    mc.insert_attribute(st[2], st[3], st[4])
                else:
                    mc.delete_attribute(st[2])
            except Exception:   # noqa: the property says nothing about schema edits; what follows cannot be judged
                return out
            apply_edit(schema[st[1]], st)
            continue
        _, ci, npos, kws, how = st
        mc = m.find_metaclass('K%d' % ci)
        attrs = [tuple(a) for a in schema[ci]]
        args = []
        for i in range(min(npos, len(attrs))):
            name, ty = attrs[i]
            args.append(77 if name == referential.get(ci) else explicit_value(ty, 1 + step))
        kwargs = {}
        for i in kws:
            if i < len(attrs) and attrs[i][0] != referential.get(ci):
                kwargs[attrs[i][0]] = explicit_value(attrs[i][1], 100 + step)
        try:
            if how == 0:
                inst = m.new('K%d' % ci, *args, **kwargs)
            elif how == 1:
                inst = m.new('k%d' % ci, *args, **kwargs)
            elif how == 2:
                inst = mc.new(*args, **kwargs)
            else:
                inst = mc(*args, **kwargs)
        except Exception as e:   # noqa: a well-formed creation must succeed
            out.append(dict(clause='creation-raised', observed={'step': step, 'exception': '%s: %s' % (type(e).__name__, e)},
                            required='an instance with typed defaults'))
            return out
        for i, (name, ty) in enumerate(attrs):
            if name == referential.get(ci):
                continue
            got = getattr(inst, name)
            uty = ty.upper()
            if name in kwargs:
                if not same_value(got, kwargs[name]):
                    out.append(dict(clause='positional-then-keyword', observed={'step': step, 'attr': name, 'value': got},
                                    required=kwargs[name]))
                any_explicit_id |= uty == 'UNIQUE_ID'
            elif i < len(args):
                if not same_value(got, args[i]):
                    out.append(dict(clause='positional-then-keyword', observed={'step': step, 'attr': name, 'value': got},
                                    required=args[i]))
                any_explicit_id |= uty == 'UNIQUE_ID'
            elif uty == 'UNIQUE_ID':
                defaulted.append(got)
                if got is None or (isinstance(got, int) and got == 0):
                    out.append(dict(clause='defaulted-id-not-null', observed={'step': step, 'attr': name, 'value': got},
                                    required='neither None nor 0'))
            else:
                if not same_value(got, DEFAULTS[uty]):
                    out.append(dict(clause='typed-default', observed={'step': step, 'attr': name, 'type': ty, 'value': got},
                                    required=DEFAULTS[uty]))
    # freshness
    seen = []
    for v in defaulted:
        if any(v == w for w in seen):
            out.append(dict(clause='defaulted-id-fresh', observed=defaulted, required='pairwise different'))
            break
        seen.append(v)
    # provenance: in order among the values the generator handed out, each value used at most once
    if not is_subsequence(defaulted, log['next']) and not is_subsequence(defaulted, log['read']):
        out.append(dict(clause='defaulted-id-from-generator', observed=defaulted,
                        required='in order among the values handed out by the generator: %r' % (log['next'][:40],)))
    if case['gen'] == 'integer' and not any_explicit_id and defaulted != list(range(1, len(defaulted) + 1)):
        out.append(dict(clause='integer-generator-consecutive', observed=defaulted,
                        required=list(range(1, len(defaulted) + 1))))
    return out


def shrink_history(case, clause):
    """Greedy reduction of a failing creation history (keeps the clause failing)."""
    def fails(c):
        try:
            return any(f['clause'] == clause for f in evaluate_history(c))
        except Exception:
            return False
    if 'steps' in case:
        cur = dict(case)
        i = len(cur['steps']) - 1
        while i >= 0 and len(cur['steps']) > 1:
            cand = dict(cur, steps=cur['steps'][:i] + cur['steps'][i + 1:])
            if fails(cand):
                cur = cand
            i -= 1
        return cur
    cur = dict(case)
    for c in case['creations']:
        one = dict(case, creations=[c])
        if fails(one):
            return one
    i = 0
    while i < len(cur['creations']) and len(cur['creations']) > 1:
        cand = dict(cur, creations=cur['creations'][:i] + cur['creations'][i + 1:])
        if fails(cand):
            cur = cand
        else:
            i += 1
    return cur


def modes(n):
    """Every mix of positional / keyword / omitted arguments for n attributes: a positional prefix of length
    0..n and any subset given by keyword (a keyword may also override a positional value)."""
    for npos in range(n + 1):
        for mask in range(2 ** n):
            yield npos, [i for i in range(n) if mask >> i & 1]


def schemas(nmax):
    for n in range(1, nmax + 1):
        for tys in itertools.product(CORE, repeat=n):
            yield tys


def history_cases(nmax, rng_for):
    k = 0
    for tys in schemas(nmax):
        k += 1
        n = len(tys)
        attrs0 = [['a%dX' % i if i % 2 else 'A_%d' % i, spell(t, k + i)] for i, t in enumerate(tys)]
        # a second class in the same metamodel with unique ids, so freshness is across classes
        attrs1 = [['Id', spell('UNIQUE_ID', k)], ['N', spell('INTEGER', k + 1)], ['Id2', spell('UNIQUE_ID', k + 2)]]
        for gen in ('integer', 'uuid', 'user'):
            rng = rng_for('%s/%s' % (tys, gen))
            ms = list(modes(n))
            for variant in range(2):
                creations = []
                order = list(ms)
                if variant == 1:
                    rng.shuffle(order)
                    # a history in which no id is ever given explicitly
                    order = [(p, kws) for (p, kws) in order
                             if all(tys[i] != 'UNIQUE_ID' for i in list(range(p)) + kws)] or [(0, [])]
                for step, (npos, kws) in enumerate(order):
                    creations.append([0, npos, kws, (step + k) % 4])
                    if step % 3 == 2:
                        creations.append([1, (step // 3) % 2 if variant == 0 else 0, [1] if step % 2 else [], step % 4])
                yield dict(gen=gen, classes=[attrs0, attrs1], ref=False, creations=creations)
            if k % 3 == 0:
                # with a referential attribute inside the class: positional indices count it
                creations = [[0, npos, kws, 0] for (npos, kws) in modes(n + 1)]
                yield dict(gen=gen, classes=[attrs0, attrs1], ref=True, ref_pos=k % (n + 1), creations=creations)


# ------------------------------------------------------------------ creation sequences interleaved with schema edits

def possible_edits(schema, k, fresh):
    """The edits applicable to the class as the oracle records it; an edit is a list of steps (without the class index).
       retype   an attribute gets another (or the same) type: delete + append / insert at its old index / insert in front
       add      a new attribute of each type: in front, at index 1, appended
       delete   an attribute goes"""
    names = [n for n, _ in schema]
    for i, name in enumerate(names):
        for ti, t in enumerate(CORE):
            ty = spell(t, k + ti)
            yield [['delete', name], ['append', name, ty]]
            if i < len(names) - 1 or len(names) == 1:
                yield [['delete', name], ['insert', i, name, ty]]
            if i > 0:
                yield [['delete', name], ['insert', 0, name, ty]]
    for ti, t in enumerate(CORE):
        ty = spell(t, k + ti + 1)
        yield [['append', fresh, ty]]
        yield [['insert', 0, fresh, ty]]
        if len(names) >= 2:
            yield [['insert', 1, fresh, ty]]
    for name in names:
        yield [['delete', name]]


def stage_creations(n, k):
    """Creations after the class reached a new shape: twice with everything omitted, then three argument mixes (rotating through
    every mix of positional prefix and keyword subset), one creation in the second class in between."""
    ms = list(modes(n))
    out = [['new', 0, 0, [], k % 4], ['new', 0, 0, [], (k + 1) % 4], ['new', 1, 0, [], k % 4]]
    for j in range(3):
        npos, kws = ms[(k * 3 + j * 7) % len(ms)]
        out.append(['new', 0, npos, kws, (k + j) % 4])
    out.append(['new', 0, 0, [], (k + 2) % 4])
    return out


def edit_scripts(base, depth, k0):
    """Every sequence of <= depth edits on the class `base` (depth first, edits chosen from what applies at that point)."""
    def rec(schema, script, k):
        yield script
        if len(script) == depth:
            return
        for e in possible_edits(schema, k, 'N%d' % len(script)):
            nxt = [list(a) for a in schema]
            for st in e:
                apply_edit(nxt, [st[0], 0] + st[1:])
            for r in rec(nxt, script + [e], k + 1):
                yield r
    return rec([list(a) for a in base], [], k0)


def edited_history_cases(depth, stride=1):
    k = 0
    attrs1 = [['Id', 'UNIQUE_ID'], ['N', 'integer'], ['Id2', 'unique_id']]
    for b, (t0, t1) in enumerate(itertools.product(CORE, repeat=2)):
        base = [['A_0', spell(t0, b)], ['a1X', spell(t1, b + 1)]]
        for script in edit_scripts(base, depth, b):
            k += 1
            if len(script) == depth and depth > 2 and k % stride:
                continue
            gens = ('integer', 'uuid', 'user') if len(script) <= 1 else (('integer', 'uuid', 'user')[k % 3],)
            for gen in gens:
                schema = [list(a) for a in base]
                steps = stage_creations(len(schema), k)
                for j, e in enumerate(script):
                    for st in e:
                        full = [st[0], 0] + st[1:]
                        steps.append(full)
                        apply_edit(schema, full)
                    steps += stage_creations(len(schema), k + j + 1)
                yield dict(gen=gen, classes=[base, attrs1], ref=False, steps=steps)


# ------------------------------------------------------------------ generators on their own

def evaluate_generator(case):
    """case: dict(gen=kind, ops='npnnp...')  n = next(), N = builtin next(g), p = peek()"""
    out = []
    log = []
    if case['gen'] == 'integer':
        g = xtuml.IntegerGenerator()
        reference = itertools.count(1)
    elif case['gen'] == 'uuid':
        g = xtuml.UUIDGenerator()
        reference = None
    else:
        produced = []

        class G(xtuml.IdGenerator):
            def readfunc(self):
                v = SCRIPT[len(produced) % len(SCRIPT)]
                produced.append(v)
                return v
        g = G()
        reference = iter(SCRIPT * 3)
    nexts = []
    last_peek = None
    for op in case['ops']:
        if op == 'p':
            v = g.peek()
            if last_peek is not None and not same_value(last_peek[0], v):
                out.append(dict(clause='peek-never-advances', observed=[last_peek[0], v], required='two peeks without a next() in between agree'))
            last_peek = (v,)
        else:
            v = g.next() if op == 'n' else (next(g) if op == 'N' else next(iter(g)))
            if last_peek is not None and not same_value(last_peek[0], v):
                out.append(dict(clause='peek-never-advances', observed={'peek': last_peek[0], 'next': v}, required='next() returns the value peeked'))
            last_peek = None
            nexts.append(v)
    if reference is not None:
        want = [next(reference) for _ in nexts]
        if nexts != want or any(type(v) is not int for v in nexts):
            if 'p' in case['ops']:
                clause = 'peek-never-advances'
            elif case['gen'] == 'integer':
                clause = 'integer-generator-yields-1-2-3'
            else:
                clause = 'generator-values-in-order'
            out.append(dict(clause=clause, observed=nexts, required=want))
    else:
        if any(v is None or v == 0 for v in nexts) or len(set(nexts)) != len(nexts):
            out.append(dict(clause='uuid-generator-nonzero-distinct', observed=nexts, required='non-zero, pairwise distinct'))
    return out


def generator_cases(maxlen):
    for gen in ('integer', 'uuid', 'user'):
        for ln in range(1, maxlen + 1):
            alphabet = 'np' if ln > 6 else 'nNip'
            for ops in itertools.product(alphabet, repeat=ln):
                yield dict(gen=gen, ops=''.join(ops))
    yield dict(gen='integer', ops='n' * 2000)
    yield dict(gen='integer', ops='np' * 1000)
    yield dict(gen='uuid', ops='n' * 2000)


# ------------------------------------------------------------------ unknown types

def evaluate_unknown(case):
    """case: dict(type=..., pos=index of the attribute among `others`, others=[types], gen=kind, via='default_value'|'new')"""
    out = []
    log = {'next': [], 'read': []}
    m = xtuml.MetaModel(make_generator(case['gen'], log))
    attrs = [('B%d' % i, t) for i, t in enumerate(case['others'])]
    attrs.insert(case['pos'], ('Odd', case['type']))
    mc = m.define_class('U', attrs)
    try:
        if case['via'] == 'default_value':
            r = mc.default_value(case['type'])
        elif case['via'] == 'new':
            r = m.new('U')
        elif case['via'] == 'new-explicit-kw':
            # every attribute given by keyword, the one of unknown type too (spelled in another case): the creation still
            # starts by giving every attribute the default of its type, which does not exist
            kw = dict((n, explicit_value(t, 1)) for n, t in attrs if n != 'Odd')
            kw[('ODD', 'odd', 'Odd', 'oDD')[case['pos'] % 4]] = 5
            r = m.new('U', **kw)
        elif case['via'] == 'new-explicit-pos':
            r = m.new('U', *[5 if n == 'Odd' else explicit_value(t, 1) for n, t in attrs[:case['pos'] + 1]])
        else:
            # other attributes given, the one of unknown type omitted
            kw = dict((n, explicit_value(t, 1)) for n, t in attrs if n != 'Odd')
            r = m.new('U', **kw)
        out.append(dict(clause='unknown-type-rejected', observed='returned %r' % (r,), required='MetaException'))
    except xtuml.MetaException:
        pass
    except Exception as e:   # noqa
        out.append(dict(clause='unknown-type-rejected', observed='%s: %s' % (type(e).__name__, e), required='MetaException'))
    return out


def unknown_cases():
    k = 0
    for ty in UNKNOWN_TYPES:
        for sp in range(4):
            t = spell(ty, sp)
            for others in [()] + [(a,) for a in CORE] + [(a, b) for a in CORE for b in CORE]:
                for pos in range(len(others) + 1):
                    for via in ('default_value', 'new', 'new-kw', 'new-explicit-kw', 'new-explicit-pos'):
                        k += 1
                        yield dict(type=t, pos=pos, others=[spell(o, k) for o in others], gen=('integer', 'uuid', 'user')[k % 3], via=via)


# ------------------------------------------------------------------ items

def _drive(ctx, cases, fn, nontrivial=lambda c: True, shrink=None):
    for i, case in enumerate(cases):
        if i % ctx.nshards != ctx.shard:
            continue
        if ctx.expired():
            ctx.exhausted = False
            return
        ctx.case(key=case, nontrivial=nontrivial(case))
        for f in fn(case):
            small = case
            if shrink is not None and getattr(ctx, '_per_clause', {}).get(f['clause'], 0) < getattr(ctx, 'MAX_PER_CLAUSE', 3):
                small = shrink(case, f['clause'])
                f = ([g for g in fn(small) if g['clause'] == f['clause']] or [f])[0]
            ctx.check(False, clause=f['clause'], input=small, observed=f['observed'], required=f['required'])
    ctx.exhausted = True


@item('creation-histories', stands_in_for=['xtuml.meta.MetaClass.new', 'xtuml.meta.MetaClass.default_value', 'xtuml.meta.MetaModel.new'],
      bound='every class of 1..4 (quick) / 1..5 (thorough) attributes over the 5 core types (type names in 4 letter-case '
            'spellings, rotated), x 3 generators (integer, uuid, scripted IdGenerator subclass) x 2 histories in one '
            'metamodel that go through every argument mix (positional prefix 0..n x every keyword subset, keywords may override), '
            'interleaved with creations in a second class with two unique ids; every third schema also with a referential '
            'attribute inside the class',
      shards=7, weight=4)
def creation_histories(ctx):
    import random
    seed = ctx.seed

    def rng_for(tag):
        return random.Random('C19/%s/%d' % (tag, seed))
    _drive(ctx, history_cases(4 if ctx.quick else 5, rng_for), evaluate_history, shrink=shrink_history)


@item('schema-edit-histories', stands_in_for=['xtuml.meta.MetaClass.new', 'xtuml.meta.MetaClass.default_value', 'xtuml.meta.MetaClass.append_attribute',
                                             'xtuml.meta.MetaClass.insert_attribute', 'xtuml.meta.MetaClass.delete_attribute'],
      bound='a class of two attributes (every pair of the 5 core types, type names in rotated letter case) next to a class with two unique ids; every '
            'sequence of <= 2 schema edits (thorough: <= 3, every 5th of length 3) out of: any attribute gets any of the 5 types (delete + append / insert at its old index / insert in '
            'front, so also to and from UNIQUE_ID), a new attribute of any type in front / at index 1 / appended, any attribute deleted; before the '
            'first and after every edit 7 creations (everything omitted x3, three rotating mixes of positional/keyword arguments, one in the other '
            'class); all 3 generators for <= 1 edit, rotated beyond; every creation judged by the types the attributes have at that time',
      shards=6, weight=2)
def schema_edit_histories(ctx):
    if ctx.shard == 0:
        ctx.note('not checked: values of instances that existed before a schema edit (the property speaks of creation only)')
    _drive(ctx, edited_history_cases(2 if ctx.quick else 3, 5), evaluate_history, shrink=shrink_history)


@item('generators', stands_in_for=['xtuml.tools.IdGenerator.peek', 'xtuml.tools.IdGenerator.next', 'xtuml.tools.IntegerGenerator.readfunc',
                                   'xtuml.tools.UUIDGenerator.readfunc'],
      bound='every interleaving of next()/builtin next/iter+next/peek() of length <= 6 (4 ops) and of next()/peek() of length <= 9 (quick) / '
            '<= 12 (thorough), on IntegerGenerator, UUIDGenerator and a scripted IdGenerator subclass; plus runs of 2000 draws',
      shards=2, weight=1)
def generators(ctx):
    _drive(ctx, generator_cases(9 if ctx.quick else 12), evaluate_generator, nontrivial=lambda c: 'n' in c['ops'].lower())


@item('unknown-types', stands_in_for=['xtuml.meta.MetaClass.default_value'],
      bound='7 unknown type names x 4 spellings, alone or next to 1..2 attributes of core types at every position, through '
            'default_value(), new() without arguments, new() with all other attributes given, and new() with an explicit value for it (keyword in 4 spellings, positional)',
      shards=1, weight=1)
def unknown_types(ctx):
    _drive(ctx, unknown_cases(), evaluate_unknown)


def replay(item_name, input):
    import logging
    logging.disable(logging.CRITICAL)
    fn = {'creation-histories': evaluate_history, 'schema-edit-histories': evaluate_history, 'generators': evaluate_generator, 'unknown-types': evaluate_unknown}[item_name]
    return fn(input)
