"""C20: one loaded model edited in place, so that several schemas are generated from the SAME model in one process.

The row edits of _c14_rows / _c20_ref stay the description of the model (the independent walk reads rows).  `Live.sync(rows)`
brings the loaded xtuml.MetaModel to the new row state through the public xtuml API only:

  a row that disappeared         -> xtuml.delete(instance)
  a new row                      -> metamodel.new(kind, non-referential values), then relate across every association whose
                                    referential attributes the row holds (and from existing rows that refer to it)
  a row with other values        -> the SAME instance: plain attributes are assigned, for changed referential attributes the
                                    instance is unrelated from the old and related to the new target (a move re-relates
                                    PE_PE across R8000 / R8003, a retype re-relates O_ATTR across R114, ...)

Rows are matched by the first unique identifier of their class in the ooaofooa schema.  Associations, identifiers and
column types are read from the schema text (bridgepoint.schema: data).  `Live.verify(rows)` reads the model back
(referential attributes are derived from the links) and compares the columns the reference walk reads with the rows: a
difference is a fault of this harness, never a finding.
"""
import re
import uuid

from . import _c14_rows as R

# what the reference walk (and the generator under test) reads
WALK_COLUMNS = {
    'PE_PE': ['Element_ID', 'Package_ID', 'Component_ID'], 'EP_PKG': ['Package_ID', 'Name'], 'C_C': ['Id', 'Name'],
    'S_DT': ['DT_ID', 'Name'], 'S_CDT': ['DT_ID', 'Core_Typ'], 'S_EDT': ['DT_ID'], 'S_UDT': ['DT_ID', 'CDT_DT_ID'],
    'S_ENUM': ['Enum_ID', 'Name', 'EDT_DT_ID', 'Previous_Enum_ID'], 'O_OBJ': ['Obj_ID', 'Name', 'Key_Lett'],
    'O_ATTR': ['Attr_ID', 'Obj_ID', 'PAttr_ID', 'Name', 'DT_ID'], 'O_BATTR': ['Attr_ID', 'Obj_ID'], 'O_NBATTR': ['Attr_ID', 'Obj_ID'],
    'O_DBATTR': ['Attr_ID', 'Obj_ID'], 'O_RATTR': ['Attr_ID', 'Obj_ID', 'BAttr_ID', 'BObj_ID'],
}

_S = {}


def schema():
    if _S:
        return _S
    from bridgepoint import schema as sch
    rops = []
    pat = re.compile(r"CREATE ROP REF_ID (R\d+)\s+FROM (\w+) (\w+) \(([^)]*)\)(?: PHRASE '([^']*)')?\s+"
                     r"TO (\w+) (\w+) \(([^)]*)\)(?: PHRASE '([^']*)')?;")
    for m in pat.finditer(sch.associations):
        rops.append(dict(rel=m.group(1), from_kind=m.group(3), from_cols=[c.strip() for c in m.group(4).split(',')], from_phrase=m.group(5) or '',
                         to_kind=m.group(7), to_cols=[c.strip() for c in m.group(8).split(',')], to_phrase=m.group(9) or ''))
    assert len(rops) == sch.associations.count('CREATE ROP')
    keys = {}
    for m in re.finditer(r'CREATE UNIQUE INDEX (\w+) ON (\w+) \(([^)]*)\);', sch.indices):
        if m.group(1) == 'I1':
            keys[m.group(2)] = [a.strip() for a in m.group(3).split(',')]
    types = {}
    for m in re.finditer(r'CREATE TABLE (\w+)\s*\((.*?)\);', sch.classes, re.S):
        types[m.group(1)] = dict((c.split()[0], c.split()[1].upper()) for c in m.group(2).split(',') if c.strip())
    by_from, by_to = {}, {}
    for r in rops:
        by_from.setdefault(r['from_kind'], []).append(r)
        by_to.setdefault(r['to_kind'], []).append(r)
    _S.update(rops=rops, keys=keys, types=types, by_from=by_from, by_to=by_to)
    return _S


def value(kind, col, tok):
    """The value an instance holds for a raw row token."""
    ty = schema()['types'][kind][col]
    v = R.decode(tok)
    if ty == 'UNIQUE_ID':
        return uuid.UUID(v).int if isinstance(v, str) else int(v)
    if ty == 'BOOLEAN':
        return bool(v)
    if ty == 'INTEGER':
        return int(v)
    if ty == 'REAL':
        return float(v)
    return v


def null(kind, col, v):
    ty = schema()['types'][kind][col]
    return v is None or (ty == 'UNIQUE_ID' and v == 0) or (ty == 'STRING' and v == '')


def row_key(row):
    cols = R.schema_columns().get(row.kind)
    ks = schema()['keys'].get(row.kind)
    if ks is None or cols is None:
        return (row.kind,) + tuple(row.vals)
    return (row.kind,) + tuple(row.vals[cols.index(c)] for c in ks)


class Live(object):
    def __init__(self, rows, load_globals):
        self.m = R.load(R.print_rows(rows), load_globals)
        self.rows = [r.copy() for r in rows]
        self.globals = R.seed_rows('globals') if load_globals else []

    # ---- lookup ----
    def find(self, kind, cols, vals):
        from xtuml import where_eq
        return self.m.select_any(kind, where_eq(**dict(zip(cols, vals))))

    def instance(self, row):
        cols = R.schema_columns()[row.kind]
        ks = schema()['keys'].get(row.kind) or cols
        return self.find(row.kind, ks, [value(row.kind, c, row.vals[cols.index(c)]) for c in ks])

    # ---- edit ----
    def sync(self, rows):
        import xtuml
        S = schema()
        cols_of = R.schema_columns()
        known = lambda rs: [r for r in rs if r.kind in cols_of]       # (graphics rows are not part of the ooaofooa schema)
        old = dict((row_key(r), r) for r in known(self.rows))
        new = dict((row_key(r), r) for r in known(rows))
        assert len(old) == len(known(self.rows)) and len(new) == len(known(rows)), 'rows with equal identifiers'
        removed = [r for k, r in old.items() if k not in new]
        added = [r for k, r in new.items() if k not in old]
        changed = [(old[k], r) for k, r in new.items() if k in old and old[k].vals != r.vals]

        def vals(row, cs):
            cols = cols_of[row.kind]
            return [value(row.kind, c, row.vals[cols.index(c)]) for c in cs]

        def differs(a, b, cs):
            cols = cols_of[a.kind]
            return any(a.vals[cols.index(c)] != b.vals[cols.index(c)] for c in cs)

        # 1. unlink what no longer holds
        work = []
        for a, b in changed:
            inst = self.instance(a)
            assert inst is not None, ('no instance', a)
            work.append((a, b, inst))
            for rop in S['by_from'].get(a.kind, []):
                if not differs(a, b, rop['from_cols']):
                    continue
                v = vals(a, rop['from_cols'])
                if any(null(a.kind, c, x) for c, x in zip(rop['from_cols'], v)):
                    continue
                t = self.find(rop['to_kind'], rop['to_cols'], v)
                if t is not None and t in xtuml.navigate_many(inst).nav(rop['to_kind'], int(rop['rel'][1:]), rop['from_phrase'])():
                    xtuml.unrelate(inst, t, int(rop['rel'][1:]), rop['from_phrase'])
        for a in removed:
            inst = self.instance(a)
            assert inst is not None, ('no instance', a)
            xtuml.delete(inst)
        # 2. plain attributes of the instances that stay
        for a, b, inst in work:
            cols = cols_of[a.kind]
            ref = set(c for rop in S['by_from'].get(a.kind, []) for c in rop['from_cols'])
            for i, c in enumerate(cols):
                if a.vals[i] != b.vals[i] and c not in ref:
                    setattr(inst, c, value(a.kind, c, b.vals[i]))
        # 3. new instances
        fresh = []
        for b in added:
            cols = cols_of[b.kind]
            ref = set(c for rop in S['by_from'].get(b.kind, []) for c in rop['from_cols'])
            kw = dict((c, value(b.kind, c, b.vals[i])) for i, c in enumerate(cols) if c not in ref)
            fresh.append((b, self.m.new(b.kind, **kw)))
        # 4. link what holds now
        def link(row, inst, rop):
            """-> done?  (the identifying attributes of the target may themselves be referential: its own links come first)"""
            v = vals(row, rop['from_cols'])
            if any(null(row.kind, c, x) for c, x in zip(rop['from_cols'], v)):
                return True
            t = self.find(rop['to_kind'], rop['to_cols'], v)
            if t is None:
                return False
            xtuml.relate(inst, t, int(rop['rel'][1:]), rop['from_phrase'])
            return True

        pending = []
        for a, b, inst in work:
            for rop in S['by_from'].get(b.kind, []):
                if differs(a, b, rop['from_cols']):
                    pending.append((b, inst, rop))
        for b, inst in fresh:
            for rop in S['by_from'].get(b.kind, []):
                pending.append((b, inst, rop))
        while pending:
            left = [p for p in pending if not link(*p)]
            if len(left) == len(pending):
                break               # references to rows that do not exist
            pending = left
        # rows that stay and refer to an instance that is new
        fresh_ids = set(id(i) for _, i in fresh)
        touched = set(row_key(b) for _, b, _ in work)
        for b, inst in fresh:
            for rop in S['by_to'].get(b.kind, []):
                v = [R.decode(x) for x in [b.vals[cols_of[b.kind].index(c)] for c in rop['to_cols']]]
                for r in rows:
                    if r.kind != rop['from_kind'] or row_key(r) in touched:
                        continue
                    cols = cols_of[r.kind]
                    if [R.decode(r.vals[cols.index(c)]) for c in rop['from_cols']] == v:
                        other = self.instance(r)
                        if other is not None and id(other) not in fresh_ids:
                            xtuml.relate(other, inst, int(rop['rel'][1:]), rop['from_phrase'])
        self.rows = [r.copy() for r in rows]

    # ---- read back ----
    def verify(self, rows):
        """[] when the model holds exactly the rows (+globals) in the columns the walk reads."""
        out = []
        types = schema()['types']
        for kind, cs in WALK_COLUMNS.items():
            cols = R.schema_columns()[kind]

            def norm(c, v):
                return 0 if (types[kind][c] == 'UNIQUE_ID' and v is None) else v

            want = sorted(tuple(norm(c, value(kind, c, r.vals[cols.index(c)])) for c in cs) for r in rows + self.globals if r.kind == kind)
            have = sorted(tuple(norm(c, getattr(i, c)) for c in cs) for i in self.m.select_many(kind))
            if want != have:
                out.append('%s: model has %s, rows have %s' % (kind, [x for x in have if x not in want][:3], [x for x in want if x not in have][:3]))
        return out
