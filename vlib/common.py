"""Shared plumbing of the checks: violation records, replay files, known findings, evidence files."""
import hashlib
import json
import os
import re
import time

ROOT = os.path.dirname(os.path.dirname(os.path.abspath(__file__)))
REPO = os.environ.get('VERIF_REPO', '/repo')
EVIDENCE_DIR = os.path.join(ROOT, 'evidence')
REPLAY_DIR = os.path.join(ROOT, 'replays')
KNOWN_FINDINGS = os.path.join(ROOT, 'known_findings.json')

EXIT_OK, EXIT_VIOLATION, EXIT_UNDECIDED, EXIT_ERROR = 0, 1, 2, 3


def jsonable(x, depth=0):
    """Best-effort conversion of a case description to JSON."""
    if depth > 12:
        return repr(x)
    if x is None or isinstance(x, (bool, int, float, str)):
        return x
    if isinstance(x, bytes):
        return x.decode('latin-1')
    if isinstance(x, (list, tuple)):
        return [jsonable(v, depth + 1) for v in x]
    if isinstance(x, (set, frozenset)):
        return sorted((jsonable(v, depth + 1) for v in x), key=repr)
    if isinstance(x, dict):
        return dict((str(k), jsonable(v, depth + 1)) for k, v in x.items())
    return repr(x)


def canon(x):
    return json.dumps(jsonable(x), sort_keys=True, ensure_ascii=True)


class Violation(object):
    """One violated contract clause.

    tier   'P' (failed proof obligation), 'F' (finite-state obligation) or 'B' (run-time contract in the bounded tier)
    item   qualified function / obligation / bounded item the clause belongs to
    clause name of the contract clause
    input  JSON-able description of the failing input (None when the verifier gave none)
    detail observed vs required, solver output, ...
    replayable  True when `input` re-executes on the real code through `./check replay`
    """
    def __init__(self, prop, tier, item, clause, input=None, detail=None, replayable=True):
        self.prop, self.tier, self.item, self.clause = prop, tier, item, clause
        self.input, self.detail, self.replayable = jsonable(input), jsonable(detail), replayable and input is not None
        self.known = None
        self.path = None

    def record(self):
        return dict(property=self.prop, tier=self.tier, item=self.item, clause=self.clause,
                    input=self.input, detail=self.detail, replayable=self.replayable)

    def write(self):
        os.makedirs(REPLAY_DIR, exist_ok=True)
        h = hashlib.sha1(canon([self.item, self.clause, self.input]).encode()).hexdigest()[:10]
        name = '%s_%s_%s.json' % (self.prop, re.sub(r'[^A-Za-z0-9_.-]+', '_', '%s.%s' % (self.item, self.clause))[:80], h)
        self.path = os.path.join(REPLAY_DIR, name)
        with open(self.path, 'w') as f:
            json.dump(self.record(), f, indent=1, sort_keys=True)
        return self.path


def load_known_findings():
    if not os.path.exists(KNOWN_FINDINGS):
        return []
    with open(KNOWN_FINDINGS) as f:
        return json.load(f)['findings']


def match_known(v, findings):
    """An open finding suppresses exactly the violations whose item, clause and input match its patterns."""
    for k in findings:
        if k.get('status') != 'open' or k['property'] != v.prop:
            continue
        m = k['match']
        if 'item' in m and not re.fullmatch(m['item'], v.item):
            continue
        if 'clause' in m and not re.fullmatch(m['clause'], v.clause):
            continue
        if 'input' in m and not re.search(m['input'], canon(v.input)):
            continue
        if 'detail' in m and not re.search(m['detail'], canon(v.detail)):
            continue
        return k
    return None


def write_evidence(prop, tier, seed, level, coverage, assumptions, wall_s, violations):
    os.makedirs(EVIDENCE_DIR, exist_ok=True)
    ev = dict(property_id=prop, tier=tier, seed=seed, level=level, coverage=jsonable(coverage),
              assumptions=list(assumptions), wall_s=round(wall_s, 3), violations=violations)
    path = os.path.join(EVIDENCE_DIR, '%s.json' % prop)
    tmp = path + '.tmp%d' % os.getpid()
    with open(tmp, 'w') as f:
        json.dump(ev, f, indent=1, sort_keys=True)
    os.replace(tmp, path)
    return path


class Timer(object):
    def __init__(self):
        self.t0 = time.time()

    def __call__(self):
        return time.time() - self.t0
