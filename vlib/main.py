"""Entry point: ./check <ID> [--tier quick|thorough] [--seed N]   |   ./check replay <path>   |   ./check lock   |   ./check selftest"""
import argparse
import importlib
import json
import os
import sys
import time
import traceback

from . import fresh_ply  # noqa: F401  (PLY tables are rebuilt from the working tree in every checker process)
from .common import (EXIT_OK, EXIT_VIOLATION, EXIT_UNDECIDED, EXIT_ERROR, ROOT, Violation, load_known_findings,
                     match_known, write_evidence, Timer, jsonable)

LOCK = os.path.join(ROOT, 'obligations.lock.json')


def load_lock():
    if os.path.exists(LOCK):
        with open(LOCK) as f:
            return json.load(f)
    return {}


PROOF_ARTIFACT_KINDS = ('invariant-init', 'invariant-preserved', 'loop-frame', 'variant-decreases')


def run_property(pid, tier, seed, only_bounded=None, write=True, quiet=False):
    """Returns (exit_code, summary dict)."""
    timer = Timer()
    spec = importlib.import_module('props.%s' % pid.lower()).PROP
    out = (lambda *a: None) if quiet else (lambda *a: print(*a, flush=True))
    lock = load_lock().get(pid, {})
    findings = load_known_findings()
    violations, undecided, errors = [], [], []
    not_reestablished = []      # proofs of changed functions that could not be redone (no verdict of the deductive tier; not an alarm)
    obligations, finite_obl, bounded_items = [], [], []
    functions = []
    covers = []
    assumptions = list(spec.get('assumptions', []))
    trusted = list(spec.get('trusted_base', []))

    # ---- tier B is started first, in its own process, and collected after the deductive tiers
    bjob = None
    if spec.get('bounded'):
        import subprocess, tempfile
        budget = spec.get('bounded_budget', {}).get(tier, 40 if tier == 'quick' else 420)
        bout = tempfile.NamedTemporaryFile(suffix='.json', delete=False).name
        bjob = (subprocess.Popen([sys.executable, '-m', 'vlib.bounded_job', spec['bounded'], pid, tier, str(seed), str(budget),
                                  json.dumps(only_bounded), bout], cwd=ROOT), bout)

    # ---- tier P: obligations generated from the current source of /repo
    if spec.get('pyvc'):
        from pyvc import driver
        try:
            res = driver.verify_groups(spec['pyvc'], tier=tier, prop=pid)
            obligations = res['obligations']
            functions = res['functions']
            assumptions += res.get('assumptions', [])
            errors += res.get('errors', [])
            od = dict(res.get('outside_detail', []))
            for msg in res.get('outside_subset', []):
                qual = msg.split(': outside the verified subset')[0]
                locked = set(sha for name, sha in lock.items() if name.startswith(qual + '::'))
                if locked and od.get(qual) is not None and od[qual] not in locked:
                    # the function was inside the subset on the reference tree and its text has changed: the deductive tier has
                    # nothing to say about the new text (neither proof nor refutation); the bounded tier decides
                    not_reestablished.append(msg + ' — changed since the reference tree; decided by the bounded tier only')
                else:
                    undecided.append(msg)
            covers = res.get('covers', [])
        except Exception:
            errors.append('pyvc: ' + traceback.format_exc())

    # ---- finite-state obligations (exact decision on an automaton regenerated from the current source)
    for name in spec.get('finite', []):
        modname, fn = name.rsplit(':', 1)
        try:
            finite_obl += getattr(importlib.import_module(modname), fn)(tier)
        except Exception:
            errors.append('finite %s: %s' % (name, traceback.format_exc()))

    failed = [o for o in obligations + finite_obl if o['status'] != 'discharged']
    sha_now = dict((f['function'], f.get('source_sha1')) for f in functions)
    loops_now = dict((f['function'], f.get('loop_headers', [])) for f in functions)

    # ---- tier B: bounded stand-ins (run-time contracts on the real functions)
    if bjob is not None:
        proc, bout = bjob
        proc.wait()
        try:
            with open(bout) as f:
                bres = json.load(f)
            os.unlink(bout)
        except Exception as e:
            bres = dict(items=[], violations=[], errors=['no result from the bounded runner (exit %s): %s' % (proc.returncode, e)])
        bounded_items = bres['items']
        errors += ['bounded ' + e for e in bres['errors']]
        per = {}
        for v in sorted(bres['violations'], key=lambda v: len(str(v['input']))):         # smallest inputs first, two per clause
            k = (v['item'], v['clause'])
            per[k] = per.get(k, 0) + 1
            if per[k] <= 2:
                violations.append(Violation(pid, 'B', v['item'], v['clause'], v['input'], v['detail']))

    # ---- verdicts for failed obligations (DESIGN section 7, violation rule)
    for o in failed:
        tierc = 'F' if o.get('backend') == 'finite' else 'P'
        locked_sha = lock.get(o['name'])
        cur_sha = sha_now.get(o.get('function'))
        changed = locked_sha is not None and cur_sha is not None and locked_sha != cur_sha
        detail = dict(status=o['status'], backend=o.get('backend'), solver_output=o.get('solver_output'),
                      function=o.get('function'), kind=o.get('kind'), clause_text=o.get('clause_text'),
                      model=o.get('model'), discharged_on_reference_tree=o['name'] in lock,
                      source_sha1_reference=locked_sha, source_sha1_now=cur_sha, native=o.get('native'))
        rep = o.get('replay')   # a concrete input that was re-executed on the real code and breaks the clause
        if tierc == 'F' and o['status'] == 'unknown' and o.get('source_sha1'):
            # a syntactic obligation whose sufficient condition no longer applies (effect unknown): no verdict of this tier
            if lock.get(o['name']) and lock[o['name']] != o['source_sha1']:
                not_reestablished.append('%s: %s — changed since the reference tree; decided by the bounded tier only' % (o['name'], o.get('clause_text')))
            else:
                undecided.append('%s: %s' % (o['name'], o.get('clause_text')))
        elif rep is not None:
            violations.append(Violation(pid, tierc, o['name'], o.get('clause') or o.get('kind', 'obligation'), rep, detail))
        elif tierc == 'F' and o['status'] in ('violated', 'sat'):
            v = Violation(pid, tierc, o['name'], o.get('clause') or o.get('kind', 'obligation'), o.get('witness'), detail,
                          replayable=o.get('witness') is not None)
            if o.get('witness') is None:
                v.input = dict(no_failing_input_found=True, obligation=o['name'])
            violations.append(v)
        elif (o['name'] in lock and changed and tierc == 'P' and o.get('kind') in PROOF_ARTIFACT_KINDS and o['status'] != 'sat'
              and lock.get('__loops__', {}).get(o.get('function')) != loops_now.get(o.get('function'))):
            # the loops of the function have been restructured (their header texts differ from the reference tree) and the sidecar
            # invariant no longer fits: the invariant is part of the proof, not of the property — a different loop may still
            # establish the postcondition, so this is "not re-established", not a violation.  With unchanged headers the invariant
            # still describes the loop and its failure falls through to the next case.
            not_reestablished.append('%s: %s — the loop invariant given for the reference tree does not carry over to the changed loop of %s '
                             '(proof artefact; the postconditions are decided separately)' % (o['name'], o['status'], o.get('function')))
        elif o['name'] in lock and changed:
            # discharged on the reference tree, the function's source text differs now, and the verifier no longer accepts it
            v = Violation(pid, tierc, o['name'], o.get('clause') or o.get('kind', 'obligation'), None, detail, replayable=False)
            v.input = dict(no_failing_input_found=True, obligation=o['name'], verifier=o['status'])
            violations.append(v)
        elif o['name'] in lock:
            undecided.append('%s: %s although the function source is unchanged since it was discharged (solver budget / load)' % (o['name'], o['status']))
        else:
            undecided.append('%s: %s (never discharged on the reference tree: a failed proof is not a violation)' % (o['name'], o['status']))

    # ---- known findings
    new, known = [], []
    for v in violations:
        k = match_known(v, findings)
        if k is not None:
            v.known = k
            known.append(v)
        else:
            new.append(v)
    seen = set()
    for v in known:
        if v.known['id'] not in seen:
            seen.add(v.known['id'])
            out('KNOWN-FINDING: property=%s %s' % (pid, v.known['text']))
    # a failed obligation without a counterexample of its own points at the failing inputs the bounded tier found, in the same
    # run, through items that stand in for the same function (concrete witnesses of the property violation on the real code)
    stands = dict((b['item'], b.get('stands_in_for', [])) for b in bounded_items)
    bnew = [v for v in new if v.tier == 'B']
    for v in new:
        if v.tier == 'B':
            v.write()
    for v in new:
        if v.tier == 'P' and not v.replayable and isinstance(v.detail, dict):
            fn = (v.detail.get('function') or '').split('@')[0]
            rel = [b.path for b in bnew if fn and any(fn == s or fn.endswith('.' + s) or s.endswith(fn) for s in stands.get(b.item, []))]
            if rel:
                v.detail['failing_inputs_found_by_the_bounded_tier'] = rel[:3]
    for v in new:
        path = v.path if v.tier == 'B' and v.path else v.write()
        tail = '' if v.replayable else ' no-failing-input-found'
        out('VIOLATION property=%s replay=%s%s' % (pid, path, tail))
        out('  %s tier=%s item=%s clause=%s' % (pid, v.tier, v.item, v.clause))
    for u in undecided:
        out('UNDECIDED %s' % u)
    for u in not_reestablished:
        out('NOT-REESTABLISHED %s' % u)
    for e in errors:
        out('CHECKER-ERROR %s' % e)

    all_obl = obligations + finite_obl
    n_dis = len([o for o in all_obl if o['status'] == 'discharged'])
    level = spec['level']
    if not_reestablished and level == 'proof':
        level = 'exploration'       # this run did not re-establish every proof: what it covered is the bounded exploration
    if spec.get('pyvc') or spec.get('finite'):
        if not all_obl and not not_reestablished and not undecided:
            # (when every function under contract has left the subset on a changed tree, the run is reported as such above)
            errors.append('zero obligations generated')
            out('CHECKER-ERROR zero obligations generated')
    coverage = dict(
        obligations=len(all_obl), discharged=n_dis,
        checker_cmd='./check %s --tier %s' % (pid, tier),
        trusted_base=trusted,
        functions_under_contract=functions,
        vacuity_covers=covers,
        obligation_list=[dict(name=o['name'], kind=o.get('kind'), backend=o.get('backend'), status=o['status'],
                              time_s=round(o.get('time_s', 0.0), 4)) for o in all_obl],
        solver_time_s=round(sum(o.get('time_s', 0.0) for o in all_obl), 3),
        backends=sorted(set(str(o.get('backend')) for o in all_obl)),
        bounded=bounded_items,
        evaluations=sum(b['evaluations'] for b in bounded_items) + len(all_obl),
        distinct_nontrivial=sum(b['distinct_nontrivial'] for b in bounded_items) + n_dis,
        rule=spec.get('rule', 'tier P: one case per proof obligation generated from the current source (non-trivial = discharged); '
                              'tier B: cases of the bounded items, distinct by the key each item states (see bounded[].bound)'),
        samples=([dict(obligation=o['name'], smt2=o.get('smt2_sample')) for o in all_obl if o.get('smt2_sample')][:2]
                 + [dict(obligation=o['name'], kind=o.get('kind'), backend=o.get('backend')) for o in all_obl][:3]
                 + [dict(bounded_item=b['item'], case=s) for b in bounded_items for s in b['samples'][:1]][:4]
                 + [dict(bounded_item=b['item'], bound=b['bound'], evaluations=b['evaluations']) for b in bounded_items][:3]),
        undecided=undecided + ['not re-established: ' + u for u in not_reestablished], checker_errors=errors[:5],
        known_findings_hit=sorted(seen),
        tiers=dict(P='proved by generated obligations', F='decided exactly on a finite automaton',
                   B='bounded stand-in, run-time contract on the real function: never counted as proved', A='assumed, see assumptions'),
    )
    if write:
        write_evidence(pid, tier, seed, level, coverage, assumptions, timer(), len(new))
    if new:
        code = EXIT_VIOLATION
    elif errors:
        code = EXIT_ERROR
    elif undecided:
        code = EXIT_UNDECIDED
    else:
        code = EXIT_OK
    out('%s tier=%s: %d/%d obligations discharged, %d bounded items (%d cases), %d violations, %d known, %d undecided, %d errors, %.1fs -> exit %d'
        % (pid, tier, n_dis, len(all_obl), len(bounded_items), sum(b['evaluations'] for b in bounded_items), len(new), len(known),
           len(undecided), len(errors), timer(), code))
    return code, dict(obligations=all_obl, violations=new, known=known, undecided=undecided, errors=errors, bounded=bounded_items)


def do_replay(path):
    with open(path) as f:
        rec = json.load(f)
    pid = rec['property']
    out = print
    out('replay %s: property=%s tier=%s item=%s clause=%s' % (path, pid, rec['tier'], rec['item'], rec['clause']))
    if not rec.get('replayable'):
        out('no failing input recorded (no-failing-input-found); failed obligation and solver output:')
        out(json.dumps(rec['detail'], indent=1)[:4000])
        # re-run the obligation on the current tree
        code, summ = run_property(pid, 'quick', 0, write=False, quiet=True)
        still = [o for o in summ['obligations'] if o['name'] == rec['item'] and o['status'] != 'discharged']
        out('obligation %s on the current tree: %s' % (rec['item'], 'FAILS' if still else 'discharged'))
        return EXIT_VIOLATION if still else EXIT_OK
    spec = importlib.import_module('props.%s' % pid.lower()).PROP
    if rec['tier'] == 'B':
        from . import bounded
        fails = bounded.replay(spec['bounded'], rec['item'], rec['input'])
    elif rec['tier'] == 'F':
        from finite import replay as frep
        fails = frep.replay(rec['input'])
    else:
        from pyvc import driver
        fails = driver.replay(spec, rec)
    if fails:
        for fl in fails:
            out('REPRODUCED clause=%s observed=%s required=%s' % (fl.get('clause'), json.dumps(jsonable(fl.get('observed')))[:600],
                                                                  json.dumps(jsonable(fl.get('required')))[:600]))
        return EXIT_VIOLATION
    out('input passes on the current tree')
    return EXIT_OK


def do_lock(only=None):
    """Record, per obligation discharged on the reference tree, the hash of the function source it was generated from."""
    props = sorted(f[:-3].upper() for f in os.listdir(os.path.join(ROOT, 'props')) if f.startswith('c') and f.endswith('.py'))
    lock = load_lock()
    for pid in props:
        if only and pid not in only:
            continue
        spec = importlib.import_module('props.%s' % pid.lower()).PROP
        if not spec.get('pyvc') and not spec.get('finite'):
            continue
        from pyvc import driver
        res = driver.verify_groups(spec['pyvc'], tier='thorough', prop=pid) if spec.get('pyvc') else dict(obligations=[], functions=[])
        sha = dict((f['function'], f.get('source_sha1')) for f in res['functions'])
        lock[pid] = dict((o['name'], sha.get(o['function'])) for o in res['obligations'] if o['status'] == 'discharged')
        lock[pid]['__loops__'] = dict((f['function'], f.get('loop_headers', [])) for f in res['functions'] if f.get('loop_headers'))
        for name in spec.get('finite', []):
            modname, fn = name.rsplit(':', 1)
            for o in getattr(importlib.import_module(modname), fn)('thorough'):
                if o['status'] == 'discharged' and o.get('source_sha1'):
                    lock[pid][o['name']] = o['source_sha1']
        bad = [o['name'] for o in res['obligations'] if o['status'] != 'discharged']
        print(pid, len(lock[pid]) - 1, 'obligations locked;', 'NOT discharged: %s' % bad if bad else 'all discharged')
    with open(LOCK, 'w') as f:
        json.dump(lock, f, indent=0, sort_keys=True)


def main(argv=None):
    argv = sys.argv[1:] if argv is None else argv
    if argv and argv[0] == 'replay':
        sys.exit(do_replay(argv[1]))
    if argv and argv[0] == 'lock':
        do_lock([a.upper() for a in argv[1:]] or None)
        sys.exit(0)
    if argv and argv[0] == 'selftest':
        from selftest import run as st
        sys.exit(st.main(argv[1:]))
    ap = argparse.ArgumentParser()
    ap.add_argument('property')
    ap.add_argument('--tier', default=os.environ.get('VERIF_TIER', 'quick'), choices=['quick', 'thorough'])
    ap.add_argument('--seed', type=int, default=int(os.environ.get('VERIF_SEED', '0') or 0))
    ap.add_argument('--only', action='append', help='run only this bounded item (debugging)')
    a = ap.parse_args(argv)
    try:
        code, _ = run_property(a.property.upper(), a.tier, a.seed, only_bounded=a.only)
    except Exception:
        traceback.print_exc()
        code = EXIT_ERROR
    sys.exit(code)


if __name__ == '__main__':
    main()
