"""Make PLY rebuild lexer and parser tables from the *current* source text of /repo in this process.

pyxtuml calls lex.lex/yacc.yacc with optimize=1 and a table module that is cached next to the source
(git-ignored build artefacts xtuml/__xtuml_*tab.py, bridgepoint/__oal_*tab.py).  With optimize=1 PLY reuses
a cached table without comparing signatures, so after an edit of a grammar rule or token regex the stale table
would keep running.  Every checker process imports this module first: tables are regenerated in memory from
the rule docstrings of the working tree (what a fresh install does) and nothing is written into /repo.
The LALR table of a grammar class is generated once per process and re-bound to each new parser object.
"""
import copy
import functools
from ply import lex as _lex, yacc as _yacc

if not getattr(_yacc, '_verif_fresh', False):
    _orig_yacc, _orig_lex = _yacc.yacc, _lex.lex
    _tables = {}

    class _Quiet(object):
        def __getattr__(self, name):
            return lambda *a, **k: None

    def yacc(*args, **kw):
        module = kw.get('module')
        key = type(module)
        pdict = dict((k, getattr(module, k)) for k in dir(module))
        if key in _tables:
            lr0, errorf_name = _tables[key]
            lr = copy.copy(lr0)
            lr.lr_productions = [copy.copy(p) for p in lr0.lr_productions]
            lr.bind_callables(pdict)
            return _yacc.LRParser(lr, pdict.get('p_error'))
        kw['optimize'] = 0
        kw['write_tables'] = False
        kw['debug'] = False
        kw['tabmodule'] = '__verif_no_such_parsetab__'
        kw.pop('outputdir', None)
        kw['errorlog'] = _Quiet()
        kw['debuglog'] = None
        parser = _orig_yacc(*args, **kw)
        master = [copy.copy(p) for p in parser.productions]
        _tables[key] = (_Table(master, parser.action, parser.goto), 'p_error')
        return parser

    class _Table(object):
        def __init__(self, productions, action, goto):
            self.lr_productions, self.lr_action, self.lr_goto = productions, action, goto
            self.lr_method = 'LALR'
        def bind_callables(self, pdict):
            for p in self.lr_productions:
                if getattr(p, 'func', None):
                    p.callable = pdict[p.func]

    def lex(*args, **kw):
        kw['optimize'] = 0
        kw.pop('lextab', None)
        kw.pop('outputdir', None)
        kw['errorlog'] = _Quiet()
        return _orig_lex(*args, **kw)

    _yacc.yacc, _lex.lex = yacc, lex
    _yacc._verif_fresh = True
