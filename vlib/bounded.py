"""Bounded tier (tier B of DESIGN.md): run-time contracts on the real functions, driven by enumerators with a stated bound.

A bounded module (bounded/cXX.py) declares items:

    from vlib.bounded import item

    @item('histories', stands_in_for=['xtuml.meta.relate', ...], bound='depth<=5, 2+2 instances', shards=8, weight=2)
    def histories(ctx):
        for i, case in enumerate(all_cases(ctx.tier)):
            if i % ctx.nshards != ctx.shard: continue
            if ctx.expired(): break
            ctx.case(key=case, nontrivial=...)
            ... run the real code ...
            ctx.check(cond, clause='mirror', input=case, observed=..., required=...)

    def replay(item_name, input):   # re-execute one recorded input on the real code
        return [dict(clause=..., observed=..., required=...), ...]   # empty list: the input passes

Nothing here is counted as proved.  Counts are measured: evaluations = ctx.case calls, distinct_nontrivial = number of
distinct keys flagged non-trivial.
"""
import hashlib
import importlib
import multiprocessing
import os
import random
import sys
import time
import traceback

from .common import canon, jsonable

_REGISTRY = {}


def item(name, stands_in_for=(), bound='', shards=1, weight=1, tiers=('quick', 'thorough')):
    def deco(fn):
        mod = fn.__module__
        _REGISTRY.setdefault(mod, []).append(dict(name=name, fn=fn, stands_in_for=list(stands_in_for), bound=bound,
                                                  shards=shards, weight=weight, tiers=tiers))
        return fn
    return deco


class Ctx(object):
    MAX_PER_CLAUSE = 3

    def __init__(self, prop, item_name, tier, seed, budget_s, shard=0, nshards=1):
        self.prop, self.item, self.tier, self.seed = prop, item_name, tier, seed
        self.shard, self.nshards = shard, nshards
        self.rng = random.Random('%s/%s/%d/%d' % (prop, item_name, seed, shard))
        self.deadline = time.time() + budget_s
        self.budget_s = budget_s
        self.evaluations = 0
        self.keys = set()
        self.samples = []
        self.violations = []
        self._per_clause = {}
        self.exhausted = None   # set True by the item when it enumerated its whole bounded space
        self.notes = []

    @property
    def quick(self):
        return self.tier == 'quick'

    def expired(self):
        return time.time() > self.deadline

    def case(self, key=None, nontrivial=True, sample=None):
        self.evaluations += 1
        if nontrivial:
            k = hashlib.sha1(canon(key).encode()).digest()[:8] if key is not None else self.evaluations
            self.keys.add(k)
        if sample is not None and len(self.samples) < 3:
            self.samples.append(jsonable(sample))
        elif key is not None and len(self.samples) < 2 and nontrivial:
            self.samples.append(jsonable(key))

    def check(self, cond, clause, input, observed=None, required=None):
        if cond:
            return True
        n = self._per_clause.get(clause, 0)
        self._per_clause[clause] = n + 1
        if n < self.MAX_PER_CLAUSE:
            self.violations.append(dict(item=self.item, clause=clause, input=jsonable(input),
                                        detail=dict(observed=jsonable(observed), required=jsonable(required))))
        return False

    def note(self, text):
        if len(self.notes) < 20:
            self.notes.append(text)

    def result(self):
        return dict(item=self.item, shard=self.shard, evaluations=self.evaluations, keys=['s%d:%d' % (self.shard, k) if isinstance(k, int) else k.hex() for k in self.keys],
                    samples=self.samples, violations=self.violations, exhausted=self.exhausted, notes=self.notes,
                    suppressed=dict((c, n - self.MAX_PER_CLAUSE) for c, n in self._per_clause.items() if n > self.MAX_PER_CLAUSE))


def _run_one(args):
    modname, prop, item_name, tier, seed, budget_s, shard, nshards = args
    import vlib.fresh_ply  # noqa: F401  tables from the current source
    import logging
    logging.disable(logging.CRITICAL)
    t0 = time.time()
    try:
        mod = importlib.import_module(modname)
        it = [i for i in _REGISTRY[modname] if i['name'] == item_name][0]
        ctx = Ctx(prop, item_name, tier, seed, budget_s, shard, nshards)
        it['fn'](ctx)
        r = ctx.result()
        r['error'] = None
    except BaseException:
        r = dict(item=item_name, shard=shard, evaluations=0, keys=[], samples=[], violations=[], exhausted=False, notes=[],
                 suppressed={}, error=traceback.format_exc())
    r['wall_s'] = time.time() - t0
    return r


def _child(job, conn):
    try:
        conn.send(_run_one(job))
    finally:
        conn.close()


def _run_jobs(jobs, procs):
    """one process per shard, at most `procs` at a time; a shard that dies (killed, out of memory) or overruns its budget by far is
    reported as an error of that shard instead of blocking the whole check (a multiprocessing.Pool waits forever for a lost task)"""
    ctxm = multiprocessing.get_context('fork')
    pending, running, results = list(jobs), [], []

    def lost(job, why, wall):
        return dict(item=job[2], shard=job[6], evaluations=0, keys=[], samples=[], violations=[], exhausted=False, notes=[],
                    suppressed={}, error=why, wall_s=wall)
    while pending or running:
        while pending and len(running) < procs:
            job = pending.pop(0)
            parent, child = ctxm.Pipe(duplex=False)
            p = ctxm.Process(target=_child, args=(job, child))
            p.start()
            child.close()
            running.append((p, parent, job, time.time()))
        still = []
        for p, conn, job, t0 in running:
            if conn.poll(0):
                try:
                    results.append(conn.recv())
                except (EOFError, OSError):
                    results.append(lost(job, 'shard process ended without a result (exit code %s)' % p.exitcode, time.time() - t0))
                p.join(10)
                continue
            if not p.is_alive():
                results.append(lost(job, 'shard process died (exit code %s)' % p.exitcode, time.time() - t0))
                continue
            if time.time() - t0 > job[5] * 2 + 180:
                p.kill()
                p.join(10)
                results.append(lost(job, 'shard overran twice its budget of %.0f s and was stopped' % job[5], time.time() - t0))
                continue
            still.append((p, conn, job, t0))
        running = still
        if running:
            time.sleep(0.05)
    return results


def run_module(modname, prop, tier, seed, budget_s, only=None, procs=16):
    """Run all items of a bounded module, sharded over processes.  Returns (items, violations, errors)."""
    importlib.import_module(modname)
    items = [i for i in _REGISTRY.get(modname, []) if tier in i['tiers'] and (only is None or i['name'] in only)]
    if not items:
        return [], [], []
    jobs = []
    total_w = float(sum(i['weight'] for i in items))
    total_shards = sum(i['shards'] for i in items)
    # every shard of every item runs concurrently when they fit on the cores; otherwise the budget is split
    scale = min(1.0, procs / float(total_shards))
    for i in items:
        b = budget_s * (scale if total_shards > procs else 1.0)
        for s in range(i['shards']):
            jobs.append((modname, prop, i['name'], tier, seed, b, s, i['shards']))
    results = _run_jobs(jobs, min(procs, len(jobs)))
    out, violations, errors = [], [], []
    for i in items:
        rs = [r for r in results if r['item'] == i['name']]
        keys = set()
        for r in rs:
            keys.update(r['keys'])
        samples = [s for r in rs for s in r['samples']][:3]
        for r in rs:
            violations.extend(r['violations'])
            if r['error']:
                errors.append('%s[%d]: %s' % (i['name'], r['shard'], r['error']))
        out.append(dict(item=i['name'], stands_in_for=i['stands_in_for'], bound=i['bound'], label='bounded (not counted as proved)',
                        evaluations=sum(r['evaluations'] for r in rs), distinct_nontrivial=len(keys),
                        exhaustive=all(r['exhausted'] is True for r in rs), samples=samples,
                        notes=[n for r in rs for n in r['notes']][:10], wall_s=round(max(r['wall_s'] for r in rs), 2),
                        suppressed_repeats=sum(sum(r['suppressed'].values()) for r in rs)))
    return out, violations, errors


def replay(modname, item_name, input):
    import vlib.fresh_ply  # noqa: F401
    mod = importlib.import_module(modname)
    return mod.replay(item_name, input)
