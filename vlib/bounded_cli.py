"""Debug runner for one bounded module:  .venv/bin/python -m vlib.bounded_cli bounded.c02 C02 [--tier quick] [--budget 40] [--only item] [--seed 0]
or to replay:  ... bounded.c02 C02 --replay '<item>' '<json input>'"""
import argparse, json, sys
from . import fresh_ply  # noqa
from . import bounded


def main():
    ap = argparse.ArgumentParser()
    ap.add_argument('module'); ap.add_argument('prop')
    ap.add_argument('--tier', default='quick'); ap.add_argument('--budget', type=float, default=40)
    ap.add_argument('--seed', type=int, default=0); ap.add_argument('--only', action='append')
    ap.add_argument('--replay', nargs=2)
    a = ap.parse_args()
    if a.replay:
        print(json.dumps(bounded.replay(a.module, a.replay[0], json.loads(a.replay[1])), indent=1, default=repr))
        return
    items, viol, err = bounded.run_module(a.module, a.prop, a.tier, a.seed, a.budget, only=a.only)
    for i in items:
        print('%-28s evals=%-8d distinct=%-8d exhaustive=%-5s wall=%.1fs bound=%s' % (i['item'], i['evaluations'], i['distinct_nontrivial'], i['exhaustive'], i['wall_s'], i['bound']))
        for n in i['notes']:
            print('    note:', n)
    for v in viol:
        print('VIOLATION', json.dumps(v, default=repr)[:1500])
    for e in err:
        print('ERROR', e)
    print('%d items, %d violations, %d errors' % (len(items), len(viol), len(err)))


if __name__ == '__main__':
    main()
