"""Run one bounded module in its own process and write the result as JSON (lets the deductive tier run at the same time)."""
import json, sys
from . import fresh_ply  # noqa
from . import bounded

def main():
    modname, prop, tier, seed, budget, only, out = sys.argv[1:8]
    only = json.loads(only)
    try:
        items, viol, err = bounded.run_module(modname, prop, tier, int(seed), float(budget), only=only)
        res = dict(items=items, violations=viol, errors=err)
    except Exception:
        import traceback
        res = dict(items=[], violations=[], errors=['bounded runner: ' + traceback.format_exc()])
    with open(out, 'w') as f:
        json.dump(res, f)

main()
