"""Index of the real source text: functions by qualified name, classes with bases, class-level constants, properties.
Re-read from the working tree on every run; nothing is cached between runs."""
import ast
import hashlib
import importlib.util
import os

from vlib.common import REPO


class Program(object):
    def __init__(self, repo=REPO):
        self.repo = repo
        self.modules = {}       # dotted module name -> (path, ast.Module, source)
        self.classes = {}       # class basename -> dict(module, node, bases[basenames], attrs{name: ast expr}, methods{name: node}, props set)

    def module_path(self, mod):
        rel = mod.replace('.', '/')
        for cand in (os.path.join(self.repo, rel + '.py'), os.path.join(self.repo, rel, '__init__.py')):
            if os.path.exists(cand):
                return cand
        import sysconfig
        cand = os.path.join(sysconfig.get_paths()['stdlib'], rel + '.py')   # stdlib source the repo's classes inherit (frozen modules too)
        if os.path.exists(cand):
            return cand
        try:
            spec = importlib.util.find_spec(mod)      # stdlib modules whose code the repo's classes inherit (e.g. _collections_abc)
        except (ImportError, AttributeError, ValueError):
            spec = None
        if spec and spec.origin and spec.origin.endswith('.py') and not spec.origin.startswith(self.repo):
            return spec.origin
        raise KeyError('module %s not found' % mod)

    def load(self, mod):
        if mod in self.modules:
            return self.modules[mod]
        path = self.module_path(mod)
        with open(path, encoding='utf-8') as f:
            src = f.read()
        tree = ast.parse(src, filename=path)
        self.modules[mod] = (path, tree, src)
        for n in tree.body:
            if isinstance(n, ast.ClassDef):
                self._index_class(mod, n)
        return self.modules[mod]

    def _index_class(self, mod, node):
        bases = []
        for b in node.bases:
            s = ast.unparse(b)
            bases.append(s.split('.')[-1])
        attrs, methods, props = {}, {}, set()
        for n in node.body:
            if isinstance(n, ast.Assign) and len(n.targets) == 1 and isinstance(n.targets[0], ast.Name):
                attrs[n.targets[0].id] = n.value
            elif isinstance(n, ast.FunctionDef):
                methods[n.name] = n
                for d in n.decorator_list:
                    if ast.unparse(d) == 'property':
                        props.add(n.name)
        self.classes.setdefault(node.name, dict(module=mod, node=node, bases=bases, attrs=attrs, methods=methods, props=props))

    def find(self, qual):
        """qual = 'xtuml.meta.Link.connect' -> (module, class name or None, FunctionDef node, source segment)."""
        parts = qual.split('@')[0].split('.')
        for i in range(len(parts) - 1, 0, -1):
            mod = '.'.join(parts[:i])
            try:
                path, tree, src = self.load(mod)
            except KeyError:
                continue
            body, cls, node = tree.body, None, None
            ok = True
            for p in parts[i:]:
                for n in body:
                    if isinstance(n, (ast.ClassDef, ast.FunctionDef)) and n.name == p:
                        if isinstance(n, ast.ClassDef):
                            cls = n.name
                        node, body = n, n.body
                        break
                else:
                    ok = False
                    break
            if ok and isinstance(node, ast.FunctionDef):
                return mod, cls, node, ast.get_source_segment(src, node)
        raise KeyError('function %s not found in the working tree' % qual)

    def mro(self, cls, extra_bases=None):
        """Linearisation good enough for single-inheritance chains used by the repo (depth-first, left to right)."""
        out, todo = [], [cls]
        while todo:
            c = todo.pop(0)
            if c in out or c is None:
                continue
            out.append(c)
            bases = []
            if extra_bases and c in extra_bases:
                bases = list(extra_bases[c])
            elif c in self.classes:
                bases = list(self.classes[c]['bases'])
            todo = bases + todo
        return out

    def source_hash(self, qual):
        mod, cls, node, seg = self.find(qual)
        decos = ''.join('@%s\n' % ast.unparse(d) for d in node.decorator_list)     # the segment starts at `def`
        return hashlib.sha1((decos + seg).encode()).hexdigest()[:12]
