"""Statement execution."""
import ast

import z3

from .sorts import (SV, PyVal, PyTuple, Closure, BoundMethod, ModuleRef, ClassRef, SpecFn, INT, BOOL, STR, REAL, VAL, NONE,
                    NONE_V, RefT, SeqT, SetT, MapT, TupT, Val, Ref, null, zsort, fresh, mk_bool, mk_int, mk_str, fresh_name)
from .values import (nth, OutsideSubset, coerce, box, unbox, py_eq, truthy, ite, tup_items, empty_map, join_sort, is_ref)
from .state import PyRaise, PathEnd

NORMAL = ('normal',)


class StmtMixin(object):

    def exec_block(self, stmts, st):
        for s in stmts:
            out = self.exec_stmt(s, st)
            if out[0] != 'normal':
                return out
        return NORMAL

    def exec_stmt(self, node, st):
        m = getattr(self, 'exec_' + type(node).__name__, None)
        if m is None:
            raise OutsideSubset('statement %s' % type(node).__name__)
        return m(node, st)

    def exec_Pass(self, node, st):
        return NORMAL

    def exec_Expr(self, node, st):
        v = node.value
        if isinstance(v, ast.Constant):
            return NORMAL                      # docstring
        if isinstance(v, ast.Call) and ast.unparse(v.func).startswith('logger.'):
            return NORMAL                      # A-LOG: logging calls dropped with their arguments
        if isinstance(v, ast.Yield):
            self.do_yield(v, st)
            return NORMAL
        self.ev(v, st)
        return NORMAL

    def do_yield(self, v, st):
        if st.yielded is None:
            raise OutsideSubset('yield outside generator contract')
        val = self.ev(v.value, st)
        es = st.yielded.sort.elem
        st.yielded = self.seq_append(st, st.yielded, coerce(val, es))
        if self.ct.rely:
            self.apply_rely(st, val)

    def exec_Return(self, node, st):
        if node.value is None:
            return ('return', NONE_V)
        return ('return', self.ev(node.value, st))

    def exec_Break(self, node, st):
        return ('break',)

    def exec_Continue(self, node, st):
        return ('continue',)

    def exec_Assert(self, node, st):
        if self.ct.kind == 'lemma':
            self.spec_mode += 1            # the assertions of a lemma are specification text (quantifiers, spec functions)
            try:
                c = self.ev_truth(node.test, st)
            finally:
                self.spec_mode -= 1
        else:
            c = self.ev_truth(node.test, st)
        if self.ct.kind == 'lemma':
            self.oblige(st, 'lemma-assert', 'line%d' % node.lineno, c, ast.unparse(node.test))
            st.assume(c)
            return NORMAL
        self.raise_if(st, z3.Not(c), 'AssertionError', 'assert')
        return NORMAL

    def exec_Raise(self, node, st):
        if node.exc is None:
            raise OutsideSubset('bare raise')
        e = node.exc
        name = None
        if isinstance(e, ast.Call):
            name = ast.unparse(e.func).split('.')[-1]
        elif isinstance(e, (ast.Name, ast.Attribute)):
            name = ast.unparse(e).split('.')[-1]
        if name is None:
            raise OutsideSubset('raise of computed exception')
        raise PyRaise(name, st, 'raise line %d' % node.lineno)

    def exec_If(self, node, st):
        c = self.ev_truth(node.test, st)
        if self.choose_bool(st, c):
            return self.exec_block(node.body, st)
        return self.exec_block(node.orelse, st)

    def exec_Delete(self, node, st):
        for t in node.targets:
            if isinstance(t, ast.Subscript):
                cont = self.ev(t.value, st)
                idx = self.ev(t.slice, st)
                if isinstance(getattr(cont, 'sort', None), MapT):
                    self.store_back(t.value, self.map_delete(cont, idx, st), st)
                elif isinstance(getattr(cont, 'sort', None), SeqT):
                    i = coerce(idx, INT).t
                    n = z3.Length(cont.t)
                    self.raise_if(st, z3.Or(i >= n, i < -n), 'IndexError', 'del list item')
                    j = z3.If(i < 0, n + i, i)
                    self.store_back(t.value, SV(cont.sort, z3.Concat(z3.Extract(cont.t, 0, j), z3.Extract(cont.t, j + 1, n - j - 1))), st)
                elif is_ref(getattr(cont, 'sort', None)) and self.reg.class_info(cont.sort.cls, 'dictfield'):
                    self.dict_store(st, cont, self.map_delete(self.dict_of(st, cont), idx, st))
                elif is_ref(getattr(cont, 'sort', None)):
                    m = self.reg.method(cont.sort.cls, '__delitem__')
                    if m is None:
                        raise OutsideSubset('del on %s' % cont.sort)
                    self.call_contract(m, [cont, idx], {}, st)
                else:
                    raise OutsideSubset('del subscript')
            elif isinstance(t, ast.Name):
                st.env.pop(t.id, None)
            else:
                raise OutsideSubset('del target')
        return NORMAL

    def map_delete(self, m, idx, st):
        k = coerce(idx, m.sort.k)
        self.raise_if(st, z3.Not(z3.Select(m.c['dom'], k.t)), 'KeyError', 'del dict item')
        keys = m.c['keys']
        self.assume_map_wf(st, m)
        i = z3.Int(fresh_name('delpos'))             # position of the key in insertion order
        st.assume(z3.And(0 <= i, i < z3.Length(keys), nth(keys, i) == k.t))
        nk = self.seq_remove_at(st, SV(SeqT(m.sort.k), keys), i).t
        return SV(m.sort, {'dom': z3.Store(m.c['dom'], k.t, z3.BoolVal(False)), 'val': m.c['val'], 'keys': nk})

    def map_store(self, m, idx, val, st, target_node=None):
        if m.sort.k is None:
            ks = idx.sort if not isinstance(idx, PyVal) else None
            vs = val.sort if not isinstance(val, PyVal) else None
            decl = self.declared_sort(target_node)
            if isinstance(decl, MapT):
                m = empty_map(decl)
            else:
                if ks is None or vs is None:
                    raise OutsideSubset('dict of verification-time values')
                m = empty_map(MapT(ks, vs))
        k, v = coerce(idx, m.sort.k), coerce(val, m.sort.v)
        had = z3.Select(m.c['dom'], k.t)
        return SV(m.sort, {'dom': z3.Store(m.c['dom'], k.t, z3.BoolVal(True)), 'val': z3.Store(m.c['val'], k.t, v.t),
                           'keys': z3.If(had, m.c['keys'], self.seq_append(st, SV(SeqT(m.sort.k), m.c['keys']), k).t)})

    def declared_sort(self, node):
        if isinstance(node, ast.Name):
            return self.ct.locals.get(node.id)
        return None

    # ---------------------------------------------------------------- assignment
    def exec_Assign(self, node, st):
        val = self.ev(node.value, st)
        for t in node.targets:
            self.assign(t, val, st)
        return NORMAL

    def exec_AugAssign(self, node, st):
        cur = self.ev(node.target, st)
        hint = self.ct.ghost.get('list_literal_class')
        if hint and isinstance(node.op, ast.Add) and isinstance(node.value, ast.List) and is_ref(getattr(cur, 'sort', None)) \
                and cur.sort.cls == hint:
            # `cell += [a, b, c]` on a list used as a record: the new items become the next fields of the same object
            k0 = self.record_len.get(cur.t.sexpr())
            if k0 is None:
                raise OutsideSubset('extension of a record of unknown length')
            for j, e in enumerate(node.value.elts):
                key = self.reg.field_key(hint, '[%d]' % (k0 + j))
                self.heap_set(st, key, cur.t, self.ev(e, st))
            self.record_len[cur.t.sexpr()] = k0 + len(node.value.elts)
            return NORMAL
        rhs = self.ev(node.value, st)
        if is_ref(getattr(cur, 'sort', None)):
            name = {ast.BitOr: '__ior__', ast.BitAnd: '__iand__', ast.Sub: '__isub__', ast.BitXor: '__ixor__', ast.Add: '__iadd__'}.get(type(node.op))
            m = self.reg.method(cur.sort.cls, name, [rhs]) if name else None
            if m is None:
                raise OutsideSubset('augmented assignment %s on %s' % (type(node.op).__name__, cur.sort))
            res = self.call_contract(m, [cur, rhs], {}, st)
            self.assign(node.target, res if not (isinstance(res, SV) and res.sort == NONE) else cur, st)
            return NORMAL
        if isinstance(getattr(cur, 'sort', None), SeqT) and isinstance(node.op, ast.Add):
            new = self.binop(node.op, cur, rhs, st)      # list += list (no aliasing of list values, PY-3)
        else:
            new = self.binop(node.op, cur, rhs, st)
        self.assign(node.target, new, st)
        return NORMAL

    def assign(self, t, val, st):
        if isinstance(t, ast.Name):
            decl = self.ct.locals.get(t.id)
            if decl is not None and not isinstance(val, PyVal):
                val = coerce(val, decl)
            elif decl is not None and isinstance(val, PyTuple):
                val = coerce(val, decl)
            st.env[t.id] = val
        elif isinstance(t, (ast.Tuple, ast.List)):
            items = tup_items(val) if (isinstance(val, PyTuple) or isinstance(getattr(val, 'sort', None), TupT)) else self.unpack(val, len(t.elts), st)
            if len(items) != len(t.elts):
                raise OutsideSubset('unpack arity')
            for e, v in zip(t.elts, items):
                self.assign(e, v, st)
        elif isinstance(t, ast.Attribute):
            base = self.ev(t.value, st)
            self.setattr_(base, t.attr, val, st)
        elif isinstance(t, ast.Subscript):
            cont = self.ev(t.value, st)
            idx = self.ev(t.slice, st)
            self.setitem(t.value, cont, idx, val, st)
        else:
            raise OutsideSubset('assignment target %s' % type(t).__name__)

    def unpack(self, val, n, st):
        if is_ref(getattr(val, 'sort', None)):
            keys = [self.reg.field_key(val.sort.cls, '[%d]' % i) for i in range(n)]
            if all(keys):
                return [self.heap_get(st, k, val.t) for k in keys]
        raise OutsideSubset('unpacking of %s' % getattr(val, 'sort', type(val).__name__))

    def setattr_(self, base, attr, val, st):
        if isinstance(base, PyVal) or not is_ref(base.sort):
            raise OutsideSubset('attribute store on %s' % getattr(base, 'sort', type(base).__name__))
        key = self.reg.field_key(base.sort.cls, attr)
        if key is None:
            m = self.reg.method(base.sort.cls, '__setattr__')
            if m is not None:
                self.call_contract(m, [base, mk_str(attr), val], {}, st)
                return
            raise OutsideSubset('store to undeclared field %s.%s' % (base.sort.cls, attr))
        self.raise_if(st, base.t == null, 'AttributeError', 'attribute store on None')
        self.heap_set(st, key, base.t, val)

    def setitem(self, cont_node, cont, idx, val, st):
        s = getattr(cont, 'sort', None)
        if isinstance(s, MapT):
            self.store_back(cont_node, self.map_store(cont, idx, val, st, cont_node), st)
        elif isinstance(s, SeqT):
            i = coerce(idx, INT).t
            n = z3.Length(cont.t)
            self.raise_if(st, z3.Or(i >= n, i < -n), 'IndexError', 'list item store')
            j = z3.If(i < 0, n + i, i)
            new = z3.Concat(z3.Extract(cont.t, 0, j), z3.Unit(coerce(val, s.elem).t), z3.Extract(cont.t, j + 1, n - j - 1))
            self.store_back(cont_node, SV(s, new), st)
        elif is_ref(s) and self.reg.class_info(s.cls, 'dictfield'):
            self.dict_store(st, cont, self.map_store(self.dict_of(st, cont), idx, val, st))
        elif is_ref(s):
            i = z3.simplify(idx.t) if (not isinstance(idx, PyVal) and idx.sort == INT) else None
            if i is not None and z3.is_int_value(i):
                key = self.reg.field_key(s.cls, '[%d]' % i.as_long())
                if key is not None:
                    self.heap_set(st, key, cont.t, val)
                    return
            m = self.reg.method(s.cls, '__setitem__')
            if m is None:
                raise OutsideSubset('item store on %s' % s)
            self.call_contract(m, [cont, idx, val], {}, st)
        else:
            raise OutsideSubset('item store on %s' % (s,))

    def store_back(self, node, val, st):
        """write a new container value to the location an expression denotes (containers are values stored in locations, PY-3)"""
        if isinstance(node, ast.Name):
            st.env[node.id] = val
        elif isinstance(node, ast.Attribute):
            base = self.ev(node.value, st)
            key = self.reg.field_key(base.sort.cls, node.attr) if is_ref(getattr(base, 'sort', None)) else None
            if key is None:
                raise OutsideSubset('mutation of container in undeclared field %s' % node.attr)
            self.heap_set(st, key, base.t, val)
        elif isinstance(node, ast.Subscript):
            cont = self.ev(node.value, st)
            idx = self.ev(node.slice, st)
            self.setitem(node.value, cont, idx, val, st)
        else:
            raise OutsideSubset('mutation of a temporary container')

    # ---------------------------------------------------------------- try / with
    def exec_Try(self, node, st):
        if node.finalbody:
            raise OutsideSubset('try/finally')
        try:
            out = self.exec_block(node.body, st)
        except PyRaise as e:
            for h in node.handlers:
                names = []
                if h.type is None:
                    names = ['BaseException']
                elif isinstance(h.type, ast.Tuple):
                    names = [ast.unparse(x).split('.')[-1] for x in h.type.elts]
                else:
                    names = [ast.unparse(h.type).split('.')[-1]]
                if any(self.exc_subclass(e.exc, n) for n in names):
                    if h.name:
                        e.st.env[h.name] = SV(RefT('Exception'), z3.Const(fresh_name('exc'), Ref))
                    return self.exec_block(h.body, e.st) if e.st is st else self._switch_state(st, e.st, h.body)
            raise
        if out[0] == 'normal' and node.orelse:
            return self.exec_block(node.orelse, st)
        return out

    def _switch_state(self, st, st2, body):
        st.env, st.pc, st.heap, st.yielded = st2.env, st2.pc, st2.heap, st2.yielded
        return self.exec_block(body, st)

    # ---------------------------------------------------------------- loops
    def assigned_names(self, nodes):
        out = []
        for n in nodes:
            for x in ast.walk(n):
                if isinstance(x, ast.Name) and isinstance(x.ctx, (ast.Store, ast.Del)) and x.id not in out:
                    out.append(x.id)
                if isinstance(x, ast.Call) and isinstance(x.func, ast.Attribute) and isinstance(x.func.value, ast.Name) \
                        and x.func.attr in ('append', 'extend', 'insert', 'remove', 'pop', 'add', 'discard', 'update', 'clear', 'appendleft') \
                        and x.func.value.id not in out:
                    out.append(x.func.value.id)
                if isinstance(x, ast.Subscript) and isinstance(x.ctx, (ast.Store, ast.Del)):
                    b = x.value
                    while isinstance(b, ast.Subscript):
                        b = b.value
                    if isinstance(b, ast.Name) and b.id not in out:
                        out.append(b.id)
        return out

    def loop_spec(self, node):
        k = self.loop_ordinals.get(id(node))
        return k, self.ct.loops.get(k)

    def havoc_for_loop(self, st, node, spec):
        stored = set()
        for x in ast.walk(node):
            if isinstance(x, ast.Name) and isinstance(x.ctx, (ast.Store, ast.Del)):
                stored.add(x.id)
        for name in self.assigned_names([node]):
            cur = st.env.get(name)
            if name not in stored and isinstance(cur, SV) and not isinstance(cur.sort, (SeqT, MapT, SetT)):
                continue                 # method call on an object reference: the variable itself is not reassigned
            decl = self.ct.locals.get(name)
            if decl is not None:
                st.env[name] = fresh(decl, name)
                self.assume_type_invariant(st, st.env[name])
            elif isinstance(cur, SV) and not (isinstance(cur.sort, (SeqT, MapT, SetT)) and getattr(cur.sort, 'elem', getattr(cur.sort, 'k', 0)) is None):
                if cur.sort == NONE:
                    # initialised to None and reassigned in the loop: any value at the loop head (declare `locals` for a sort)
                    st.env[name] = fresh(VAL, name)
                    continue
                st.env[name] = fresh(cur.sort, name)
                self.assume_type_invariant(st, st.env[name])
            elif isinstance(cur, SV):
                raise OutsideSubset('loop-modified container %s needs a declared sort (contract locals)' % name)
        if st.yielded is not None and any(isinstance(x, (ast.Yield, ast.YieldFrom)) for x in ast.walk(node)):
            st.yielded = fresh(st.yielded.sort, 'yielded')          # what was yielded so far is loop state
        mods = self.modifies_sets(st.old, list(self.ct.modifies) + list(spec.modifies or []))
        havocked = set()
        for key, refs in mods.items():
            arrs = self.heap_arrays(st, key)
            if refs is None:
                st.heap[key] = dict((suf, z3.Const(fresh_name('H.%s.%s' % (key, suf)), a.sort())) for suf, a in arrs.items())
            elif key in self.fresh_only:
                # objects created by earlier iterations may have changed: only the objects that existed at function entry keep
                # the field (the invariant has to say the rest)
                new = dict((suf, z3.Const(fresh_name('H.%s.%s' % (key, suf)), a.sort())) for suf, a in arrs.items())
                entry_alloc = self.heap_arrays(st.old, self.alloc_key)['']
                entry = self.heap_arrays(st.old, key)
                fr = z3.Const(fresh_name('fl'), Ref)
                keep = [z3.Select(new[suf], fr) == z3.Select(entry[suf], fr) for suf in arrs]
                for r in refs:
                    keep = [z3.Or(fr == r, kk) for kk in keep]
                st.assume(z3.ForAll([fr], z3.Implies(z3.Select(entry_alloc, fr), z3.And(keep))))
                st.heap[key] = new
            else:
                new = dict(arrs)
                for r in refs:
                    for suf, a in arrs.items():
                        new[suf] = z3.Store(new[suf], r, z3.Const(fresh_name('hv.%s.%s' % (key, suf)), a.sort().range()))
                st.heap[key] = new
            havocked.add(key)
        if self.alloc_key in st.heap and any(self.may_allocate(n) for n in ast.walk(node)):
            old_alloc = st.heap[self.alloc_key]['']
            new_alloc = z3.Const(fresh_name('H.alloc'), old_alloc.sort())
            r = z3.Const(fresh_name('ar'), Ref)
            st.assume(z3.ForAll([r], z3.Implies(z3.Select(old_alloc, r), z3.Select(new_alloc, r))))
            st.heap[self.alloc_key] = {'': new_alloc}
            havocked.add(self.alloc_key)
        return havocked

    def may_allocate(self, n):
        return isinstance(n, (ast.Call, ast.List, ast.Dict))

    def check_loop_frame(self, st, head_heap, havocked, k):
        for key, arrs in st.heap.items():
            if key in havocked or key == self.alloc_key:
                continue
            h = head_heap.get(key)
            if h is None:
                continue
            if all(arrs[s].eq(h[s]) for s in arrs):
                continue
            self.oblige(st, 'loop-frame', 'loop%d:%s' % (k, key), z3.And([arrs[s] == h[s] for s in arrs]),
                        'loop %d leaves %s unchanged (not in modifies)' % (k, key))

    def exec_For(self, node, st):
        k, spec = self.loop_spec(node)
        self.set_carried_roles(node)
        itv = self.ev(node.iter, st)
        if isinstance(itv, PyTuple):
            return self.unroll_for(node, itv.items, st)
        seq = self.as_seq(itv, st)
        if spec is None:
            n = z3.simplify(z3.Length(seq.t))
            if z3.is_int_value(n) and n.as_long() <= 8:
                return self.unroll_for(node, [SV(seq.sort.elem, z3.simplify(nth(seq.t, i))) for i in range(n.as_long())], st)
            raise OutsideSubset('loop %s (line %d) has no invariant' % (k if k is not None else 'of an inlined helper', node.lineno))
        extra = {'_seq': seq, '_i': mk_int(0)}
        for lbl, text in spec.inv.items():
            self.oblige(st, 'invariant-init', 'loop%d:%s' % (k, lbl), self.spec_bool(text, st, extra), text)
        havocked = self.havoc_for_loop(st, node, spec)
        i = z3.Int(fresh_name('i%d' % k))
        n = z3.Length(seq.t)
        st.assume(z3.And(0 <= i, i <= n))
        extra = {'_seq': seq, '_i': SV(INT, i)}
        for lbl, text in spec.inv.items():
            st.assume(self.spec_bool(text, st, extra))
        if self.choose_n(2, 'for%d' % k) == 0:
            st.assume(i < n)
            el = SV(seq.sort.elem, nth(seq.t, i))
            self.assume_field_invariant(st, el)
            self.bind_target(node.target, el, st)
            head_heap = dict((key, dict(v)) for key, v in st.heap.items())
            out = self.exec_block(node.body, st)
            if out[0] in ('normal', 'continue'):
                extra2 = {'_seq': seq, '_i': SV(INT, i + 1)}
                for lbl, text in spec.inv.items():
                    self.oblige(st, 'invariant-preserved', 'loop%d:%s' % (k, lbl), self.spec_bool(text, st, extra2), text)
                self.check_loop_frame(st, head_heap, havocked, k)
                if not spec.unreachable:
                    self.covers.append(('loop%d-body-reachable' % k, list(st.pc)))
                raise PathEnd()
            if out[0] == 'break':
                self.check_loop_frame(st, head_heap, havocked, k)
                return NORMAL
            return out
        st.assume(i == n)
        if node.orelse:
            return self.exec_block(node.orelse, st)
        return NORMAL

    def bind_target(self, target, el, st):
        if isinstance(el, SV) and isinstance(el.sort, TupT) and isinstance(target, (ast.Tuple, ast.List)):
            self.assign(target, el, st)
        else:
            self.assign(target, el, st)

    def unroll_for(self, node, items, st):
        for el in items:
            self.bind_target(node.target, el, st)
            out = self.exec_block(node.body, st)
            if out[0] == 'break':
                return NORMAL
            if out[0] == 'return':
                return out
        if node.orelse:
            return self.exec_block(node.orelse, st)
        return NORMAL

    def set_carried_roles(self, node):
        """_c0, _c1, ...: the loop-carried locals (assigned in the body and read there before being assigned), in order of their
        first read — the accumulator / previous-element variables an invariant has to talk about, whatever they are called"""
        first = {}
        stored = set()
        for stmt in node.body:
            for x in ast.walk(stmt):
                if isinstance(x, ast.Name):
                    k = (x.lineno, x.col_offset)
                    kind = 'store' if isinstance(x.ctx, (ast.Store, ast.Del)) else 'load'
                    if kind == 'store':
                        stored.add(x.id)
                    # an assignment evaluates its right side first: order a store after the loads of the same statement
                    key = (stmt.lineno, 1 if kind == 'store' else 0, k)
                    if x.id not in first or key < first[x.id][0]:
                        first[x.id] = (key, kind)
        carried = sorted((v[0], n) for n, v in first.items() if v[1] == 'load' and n in stored)
        self.roles = dict(getattr(self, 'roles', {}))
        for j, (_, n) in enumerate(carried):
            self.roles['_c%d' % j] = n

    def exec_While(self, node, st):
        k, spec = self.loop_spec(node)
        names = []
        for x in ast.walk(node.test):
            if isinstance(x, ast.Name) and x.id not in names and x.id in st.env:
                names.append(x.id)
        names.sort(key=lambda nm: min((y.col_offset for y in ast.walk(node.test) if isinstance(y, ast.Name) and y.id == nm)))
        self.set_carried_roles(node)
        self.roles = dict(getattr(self, 'roles', {}))
        for j, nm in enumerate(names):
            self.roles['_w%d' % j] = nm           # _w0, _w1, ...: the variables of the loop test, in order of appearance
            st.env['_w%d_entry' % j] = st.env[nm]  # ... and the values they have when the loop is reached
        if spec is None:
            raise OutsideSubset('loop %s (line %d) has no invariant' % (k if k is not None else 'of an inlined helper', node.lineno))
        for lbl, text in spec.inv.items():
            self.oblige(st, 'invariant-init', 'loop%d:%s' % (k, lbl), self.spec_bool(text, st), text)
        havocked = self.havoc_for_loop(st, node, spec)
        for lbl, text in spec.inv.items():
            st.assume(self.spec_bool(text, st))
        c = self.ev_truth(node.test, st)
        if self.choose_bool(st, c):
            d0 = self.spec_eval(spec.decreases, st).t if spec.decreases else None
            head_heap = dict((key, dict(v)) for key, v in st.heap.items())
            out = self.exec_block(node.body, st)
            if out[0] in ('normal', 'continue'):
                for lbl, text in spec.inv.items():
                    self.oblige(st, 'invariant-preserved', 'loop%d:%s' % (k, lbl), self.spec_bool(text, st), text)
                if d0 is not None:
                    d1 = self.spec_eval(spec.decreases, st).t
                    self.oblige(st, 'variant-decreases', 'loop%d' % k, z3.And(d0 >= 0, d1 < d0), spec.decreases)
                self.check_loop_frame(st, head_heap, havocked, k)
                if not spec.unreachable:
                    self.covers.append(('loop%d-body-reachable' % k, list(st.pc)))
                raise PathEnd()
            if out[0] == 'break':
                return NORMAL
            return out
        if node.orelse:
            return self.exec_block(node.orelse, st)
        return NORMAL

    def exec_FunctionDef(self, node, st):
        st.env[node.name] = Closure(node, st.env, None)
        return NORMAL

    def exec_With(self, node, st):
        raise OutsideSubset('with statement')
