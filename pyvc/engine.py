"""pyvc: forward symbolic executor over the real source text (ast) producing named proof obligations.

Single-path interpreter driven by a choice oracle: every fork point (if, raising callee, loop head, short-circuit with effects)
consumes one decision; the function is re-executed once per decision vector, so `ev` never has to merge states.
Loops are cut at the sidecar invariant; calls are replaced by the callee's contract (never its body).
"""
import ast
import os
import collections

import z3

from .sorts import (PyProperty, SV, PyVal, PyTuple, Closure, BoundMethod, ModuleRef, ClassRef, SpecFn, Sort, INT, BOOL, STR, REAL, VAL, NONE,
                    NONE_V, RefT, SeqT, SetT, MapT, TupT, Val, Ref, null, zsort, fresh, const, mk_bool, mk_int, mk_str, fresh_name)
from .values import (nth, OutsideSubset, coerce, box, unbox, py_eq, truthy, ite, tup_items, empty_map, join_sort, is_ref,
                     int_to_str, default_term)
from .state import St, Obligation, PyRaise, PathEnd, EXC_BASES
from .expr import ExprMixin
from .stmt import StmtMixin
from .calls import CallMixin

MAX_PATHS = 4000


class Exec(ExprMixin, StmtMixin, CallMixin):
    def __init__(self, registry, contract):
        self.reg = registry
        self.prog = registry.program
        self.ct = contract
        self.obls = collections.OrderedDict()
        self.paths = 0
        self.exits = collections.Counter()
        self.spec_mode = 0
        self.spec_depth = 0
        self.class_ids = {}
        self.typeof = z3.Function('typeof', Ref, z3.IntSort())
        self.alloc_key = '$alloc'
        self.cur_module = None
        self.cur_class = None
        self.loop_ordinals = {}
        self.hyp_axioms = []
        self.covers = []
        self.defined_recs = {}
        self.notes = []

    # ------------------------------------------------------------------ obligations
    def oblige(self, st, kind, label, goal, text='', where=''):
        if self.nchoices < len(self.prescribed):
            return          # replayed prefix: already emitted by the run that created this branch
        name = '%s::%s%s' % (self.ct.qual, kind, '[%s]' % label if label else '')
        o = self.obls.get(name)
        if o is None:
            o = self.obls[name] = Obligation(name, self.ct.qual, kind, label, text)
        if z3.is_true(goal) or z3.is_true(z3.simplify(goal)):
            o.add([], z3.BoolVal(True), where)
            return
        o.add(st.pc, goal, where)

    # ------------------------------------------------------------------ choice oracle
    def choose_n(self, n, tag=''):
        k = self.nchoices
        self.nchoices += 1
        if k < len(self.prescribed):
            d = self.prescribed[k]
        else:
            d = 0
            for j in range(1, n):
                self.worklist.append(self.taken + [j])
        self.taken.append(d)
        return d

    def choose_bool(self, st, cond, tag=''):
        """fork on a z3 condition; returns a python bool and adds the decision to the path condition"""
        c = z3.simplify(cond)
        if z3.is_true(c):
            return True
        if z3.is_false(c):
            return False
        d = self.decided(st, c)
        if d is not None:
            return d
        if self.choose_n(2, tag) == 0:
            st.assume(cond)
            self.prune_if_dead(st)
            return True
        st.assume(z3.Not(cond))
        self.prune_if_dead(st)
        return False

    def qf_consistent(self, st):
        s = z3.Solver()
        s.set('timeout', 400)
        s.set('rlimit', 3000000)
        for f in st.pc:
            if not self.has_quantifier(f) and not self.has_recfun(f):
                s.add(f)
        return s.check() != z3.unsat

    def prune_if_dead(self, st):
        """stop exploring a branch whose quantifier-free path condition is already contradictory (sound: hypotheses are only dropped)"""
        s = z3.Solver()
        s.set('timeout', 400)
        s.set('rlimit', 3000000)          # deterministic resource bound: the soft timeout alone is ignored in some theory loops
        for f in st.pc:
            if not self.has_quantifier(f) and not self.has_recfun(f):
                s.add(f)
        if s.check() == z3.unsat:
            self.exits['dead-branch'] += 1
            raise PathEnd()

    def has_recfun(self, f):
        """applications of recursive spec functions are left out of the cheap feasibility checks (unfolding may not terminate)"""
        cache = self.__dict__.setdefault('_hr', {})
        k = f.get_id()
        if k not in cache:
            cache[k] = 'spec_' in f.sexpr() and any(('spec_' + n) in f.sexpr() for n in self.reg.spec_sorts)
        return cache[k]

    def has_quantifier(self, f):
        cache = self.__dict__.setdefault('_hq', {})
        k = f.get_id()
        if k in cache:
            return cache[k]
        todo, seen, found = [f], set(), False
        while todo:
            x = todo.pop()
            if x.get_id() in seen:
                continue
            seen.add(x.get_id())
            if z3.is_quantifier(x):
                found = True
                break
            todo.extend(x.children())
        cache[k] = found
        return found

    # ------------------------------------------------------------------ heap
    def heap_arrays(self, st, key):
        if key not in st.heap:
            sort = self.field_sort(key)
            st.heap[key] = dict((suf, z3.Const('H.%s%s' % (key, '.' + suf if suf else ''), z3.ArraySort(Ref, zs))) for suf, zs in sort.comps())
        return st.heap[key]

    def field_sort(self, key):
        if key == self.alloc_key:
            return BOOL
        if key not in self.reg.fields:
            raise OutsideSubset('undeclared heap field %s' % key)
        return self.reg.fields[key]

    def heap_get(self, st, key, ref):
        sort = self.field_sort(key)
        arrs = self.heap_arrays(st, key)
        v = SV(sort, dict((suf, z3.Select(a, ref)) for suf, a in arrs.items()))
        return v

    def heap_set(self, st, key, ref, value):
        sort = self.field_sort(key)
        value = coerce(value, sort)
        arrs = self.heap_arrays(st, key)
        st.heap[key] = dict((suf, z3.Store(a, ref, value.c[suf])) for suf, a in arrs.items())

    def allocated(self, st, ref):
        return z3.Select(self.heap_arrays(st, self.alloc_key)[''], ref)

    def allocate(self, st, cls):
        r = z3.Const(fresh_name('new_%s' % cls), Ref)
        st.assume(z3.Not(self.allocated(st, r)))
        st.assume(r != null)
        st.assume(self.typeof(r) == self.class_id(cls))
        st.heap[self.alloc_key] = {'': z3.Store(self.heap_arrays(st, self.alloc_key)[''], r, z3.BoolVal(True))}
        seen = set()
        for c in self.reg.mro(cls):                      # class-level constants are what an attribute reads before it is set
            ci = self.prog.classes.get(c)
            for attr, valnode in (ci['attrs'].items() if ci else []):
                key = self.reg.field_key(cls, attr)
                if key is not None and attr not in seen and isinstance(valnode, ast.Constant):
                    seen.add(attr)
                    self.heap_set(st, key, r, self.ev_Constant(valnode, st))
        return SV(RefT(cls), r)

    def class_id(self, cls):
        if cls not in self.class_ids:
            self.class_ids[cls] = len(self.class_ids) + 1
        return z3.IntVal(self.class_ids[cls])

    def subclasses(self, cls):
        out = set([cls])
        names = set(self.prog.classes) | set(self.reg.classes)
        changed = True
        while changed:
            changed = False
            for c in names:
                if c not in out and any(b in out for b in self.reg.mro(c)[1:]):
                    out.add(c)
                    changed = True
        return out

    def isinstance_term(self, ref_term, cls):
        return z3.And(ref_term != null, z3.Or([self.typeof(ref_term) == self.class_id(c) for c in sorted(self.subclasses(cls))]))

    def len_of_ref(self, st):
        def f(v):
            cls = v.sort.cls
            if cls is None:
                return None
            text = self.reg.class_info(cls, 'len')
            if text is None:
                return None
            return self.spec_eval(text, st, {'self': v}).t
        return f

    def truth(self, st, v):
        if is_ref(getattr(v, 'sort', None)) and v.sort.cls is not None:
            text = self.reg.class_info(v.sort.cls, 'truth')
            if text is not None:          # objects whose truth value is part of their abstract state
                return z3.And(v.t != null, self.spec_eval(text, st, {'self': v}).t)
        return truthy(v, self.len_of_ref(st))

    # ------------------------------------------------------------------ spec evaluation
    def spec_eval(self, text, st, extra=None, result=None):
        node = ast.parse(text.strip(), mode='eval').body if isinstance(text, str) else text
        self.spec_mode += 1
        saved = st.env
        try:
            env = dict(saved)
            if extra:
                env.update(extra)
            if result is not None:
                env['result'] = result
            st.env = env
            return self.ev(node, st)
        finally:
            st.env = saved
            self.spec_mode -= 1

    def spec_bool(self, text, st, extra=None, result=None):
        node = ast.parse(text.strip(), mode='eval').body if isinstance(text, str) else text
        self.spec_mode += 1
        saved = st.env
        try:
            env = dict(saved)
            if extra:
                env.update(extra)
            if result is not None:
                env['result'] = result
            st.env = env
            return self.ev_truth(node, st)
        finally:
            st.env = saved
            self.spec_mode -= 1

    # ------------------------------------------------------------------ verification of one function
    def bind_params(self, st):
        ct = self.ct
        for p in ct.params:
            name, sort = p[0], p[1]
            if name.startswith('**'):
                continue                                  # bound through ct.statics (verified for the stated keyword shape)
            if name.startswith('*'):
                name = name[1:]                           # *args declared with a sequence sort: any number of positional values
            v = const(sort, 'arg_' + name) if not isinstance(sort, PyVal) else sort
            st.env[name] = v
            self.assume_type_invariant(st, v)
            if name == 'self' and is_ref(getattr(v, 'sort', None)):
                st.assume(v.t != null)                   # a method runs on an existing receiver
        for name, v in ct.statics.items():
            st.env[name] = v

    def assume_type_invariant(self, st, v):
        if isinstance(v, PyVal):
            return
        s = v.sort
        if is_ref(s):
            st.assume(z3.Or(v.t == null, self.allocated(st, v.t)))
            if s.cls is not None:
                st.assume(z3.Or(v.t == null, self.isinstance_term(v.t, s.cls)))
        elif isinstance(s, MapT):
            self.assume_map_wf(st, v)

    def assume_map_wf(self, st, m):
        zk = zsort(m.sort.k)
        k = z3.Const(fresh_name('k'), zk)
        i, j = z3.Int(fresh_name('i')), z3.Int(fresh_name('j'))
        keys = m.c['keys']
        st.assume(z3.ForAll([k], z3.Select(m.c['dom'], k) == z3.Exists([i], z3.And(0 <= i, i < z3.Length(keys), nth(keys, i) == k))))
        st.assume(z3.ForAll([i, j], z3.Implies(z3.And(0 <= i, i < j, j < z3.Length(keys)), nth(keys, i) != nth(keys, j))))

    def run(self):
        """Symbolically execute the function under its contract; fills self.obls."""
        ct = self.ct
        if ct.kind == 'lemma':
            fn = ast.parse(ct.source).body[0]
            self.cur_module, self.cur_class = ct.module.name, None
        else:
            mod, cls, fn, src = self.prog.find(ct.qual)
            self.cur_module, self.cur_class = mod, cls
            for d in fn.decorator_list:
                dt = ast.unparse(d)
                if not (dt in ('property', 'staticmethod', 'classmethod', 'track_production') or dt.endswith('.setter') or dt.endswith('.getter')):
                    # a decorator replaces the function that runs (cache, wrapper, registration): the body alone is not the code
                    raise OutsideSubset('decorator @%s: the decorated function is not the extracted body' % dt)
        self.fn = fn
        self.roles = {}
        last = fn.body[-1] if fn.body else None
        if isinstance(last, ast.Return) and isinstance(last.value, ast.Name):
            self.roles['_returned'] = last.value.id      # the variable the function returns at its end (accumulators of counting loops)
        self.number_loops(fn)
        self.body = fn.body
        frag = ct.ghost.get('fragment')
        if frag is not None:          # contract on one loop of the function, from arbitrary values of its live variables
            node = [n for n in ast.walk(fn) if isinstance(n, (ast.For, ast.While)) and self.loop_ordinals[id(n)] == frag['loop']]
            if not node:
                raise OutsideSubset('%s has no loop %d any more (fragment contract)' % (ct.qual, frag['loop']))
            self.body = [node[0]]
        self.worklist = [[]]
        while self.worklist:
            self.prescribed = self.worklist.pop()
            self.taken = []
            self.nchoices = 0
            self.paths += 1
            self.record_len = {}
            if self.paths > MAX_PATHS:
                raise OutsideSubset('more than %d paths' % MAX_PATHS)
            st = St()
            self.bind_params(st)
            for name, text in ct.lets.items():
                st.env[name] = self.spec_eval(text, st)
            for lbl, text in ct.requires.items():
                st.assume(self.spec_bool(text, st))
            for lbl, (text, _) in self.reg.axioms.items():
                st.assume(self.spec_bool(text, st))
            if self.paths == 1:
                self.covers.append(('requires-satisfiable', list(st.pc)))
            st.old = st.snapshot()
            if ct.kind == 'generator':
                st.yielded = SV(SeqT(ct.yields), z3.Empty(z3.SeqSort(zsort(ct.yields))))
            self.run_path(st)
        return self.obls

    def run_path(self, st):
        try:
            self.run_path_(st)
        except OutsideSubset:
            # a construct without encoding matters only if the path that reaches it is feasible: when the hypotheses collected so
            # far (preconditions, invariants, callee postconditions) are contradictory, the path is dead under this contract
            s = z3.Solver()
            s.set('timeout', int(os.environ.get('PYVC_DEAD_MS', '4000')))
            for h in list(self.hyp_axioms) + list(st.pc):
                s.add(h)
            r = s.check()
            if os.environ.get('PYVC_DEAD_DUMP'):
                open(os.environ['PYVC_DEAD_DUMP'], 'w').write(s.to_smt2())
            if r == z3.unsat:
                self.exits['dead-branch'] += 1
                return
            raise

    def run_path_(self, st):
        ct = self.ct
        try:
            out = self.exec_block(self.body, st)
        except PathEnd:
            self.exits['cut'] += 1
            return
        except PyRaise as e:
            self.exits['raise ' + e.exc] += 1
            self.check_exceptional_exit(e)
            return
        kind = out[0]
        if kind in ('break', 'continue'):
            raise OutsideSubset('%s outside loop' % kind)
        if ct.kind == 'generator':
            result = st.yielded
        elif kind == 'return':
            result = out[1]
        else:
            result = NONE_V
        if ct.returns == NONE and kind == 'return' and isinstance(result, SV) and result.sort != NONE and result.sort != VAL and not is_ref(result.sort):
            # the contract says the function returns None; an exit that returns a container / number / string must be unreachable
            # under its precondition: a named obligation (goal False under the path condition), not a silent pruning
            self.exits['unreachable-exit'] += 1
            self.oblige(st, 'result-is-none', 'exit-returning-%s-unreachable' % type(result.sort).__name__, z3.BoolVal(False),
                        'the exit that returns a value of sort %s is unreachable' % (result.sort,), where='return')
            return
        self.exits['normal'] += 1
        self.covers.append(('normal-exit-reachable', list(st.pc)))
        self.apply_ghost_exit(st, result)
        self.check_normal_exit(st, result)

    def apply_ghost_exit(self, st, result):
        """ghost assignments at the normal exit point (witnesses for the abstract state), given by the sidecar"""
        for target, text in self.ct.ghost.get('exit', []):
            gs = st.fork()
            gs.env = dict(st.old.env)
            gs.env['result'] = result
            gs.pc = st.pc
            val = self.spec_eval(text, gs)
            base, _, attr = target.rpartition('.')
            recv = self.spec_eval(base, gs)
            key = self.reg.field_key(recv.sort.cls, attr)
            if key is None:
                raise OutsideSubset('ghost exit assignment to unknown field %s' % target)
            self.heap_set(st, key, recv.t, val)

    def check_normal_exit(self, st, result):
        ct = self.ct
        if isinstance(result, PyProperty) and is_ref(ct.returns):
            # a property object returned by the code: an object whose getter value is what the closure computes now
            obj = self.allocate(st, ct.returns.cls)
            key = self.reg.field_key(ct.returns.cls, 'fgetv')
            self.heap_set(st, key, obj.t, self.call_closure(result.fget, [], {}, st))
            result = obj
        if isinstance(ct.returns, SeqT) and not isinstance(getattr(result, 'sort', None), SeqT):
            result = self.as_seq(result, st)             # a returned container is specified by the sequence it iterates as
        if ct.returns is not None and not isinstance(result, PyVal):
            result = coerce(result, ct.returns)
        post = st.fork()
        if ct.ghost.get('fragment') is None:
            post.env = dict(st.old.env)          # ensures speak about the entry values of the parameters
        for r in ct.raises:
            w = self.spec_bool(r.when, st.old.fork())
            self.oblige(st, 'raises-when-required', r.exc, z3.Not(w), 'normal exit only when not (%s)' % r.when, where='normal-exit')
        for lbl, text in ct.ensures.items():
            self.oblige(post, 'ensures', lbl, self.spec_bool(text, post, result=result), text, where='normal-exit')
        if ct.kind != 'lemma':
            self.check_frame(st, 'normal')

    def check_exceptional_exit(self, e):
        ct, st = self.ct, e.st
        matching = [r for r in ct.raises if self.exc_subclass(e.exc, r.exc)]
        if not matching:
            if ct.no_other_exception:
                self.oblige(st, 'no-other-exception', e.exc, z3.BoolVal(False), 'no %s escapes (%s)' % (e.exc, e.origin), where=e.origin)
            return
        # the exit must be covered by one of the documented clauses, with its post-state
        whens = [self.spec_bool(r.when, st.old.fork()) for r in matching]
        self.oblige(st, 'raises-only-when', e.exc, z3.Or(whens), ' or '.join(r.when for r in matching), where=e.origin)
        for r, w in zip(matching, whens):
            for lbl, text in r.post.items():
                s2 = st.fork()
                s2.env = dict(st.old.env)
                s2.assume(w)
                self.oblige(s2, 'exceptional-post', '%s:%s' % (r.exc, lbl), self.spec_bool(text, s2), text, where=e.origin)

    def exc_subclass(self, exc, base):
        seen, todo = set(), [exc]
        while todo:
            c = todo.pop()
            if c == base:
                return True
            if c in seen:
                continue
            seen.add(c)
            if c in self.prog.classes:
                todo += self.prog.classes[c]['bases']
            todo += EXC_BASES.get(c, [])
        return False

    def modifies_sets(self, st_old, mod_list=None):
        """field key -> list of ref terms that may be modified, or None when the whole field may change"""
        out = {}
        self.fresh_only = set()
        for m in (self.ct.modifies if mod_list is None else mod_list):
            if m.startswith('fresh:'):
                # the field may differ only at objects that were not allocated at entry (checked like an absent entry; havoced
                # at call sites with the frame over the objects allocated before the call)
                base, _, attr = m[6:].rpartition('.')
                key = self.reg.field_key(base, attr) or '%s.%s' % (base, attr)
                out.setdefault(key, [])
                self.fresh_only.add(key)
                continue
            base, _, attr = m.rpartition('.')
            if base in self.prog.classes or base in self.reg.classes or (base[:1].isupper() and base.isidentifier() and base not in st_old.env):
                key = self.reg.field_key(base, attr) or '%s.%s' % (base, attr)
                out[key] = None
                continue
            recv = self.spec_eval(base, st_old.fork())
            if not is_ref(recv.sort):
                raise OutsideSubset('modifies clause %s: not a reference' % m)
            key = self.reg.field_key(recv.sort.cls, attr)
            if key is None:
                raise OutsideSubset('modifies clause %s: unknown field' % m)
            if key in out and out[key] is None:
                continue
            out.setdefault(key, []).append(recv.t)
        return out

    def check_frame(self, st, how):
        mods = self.modifies_sets(st.old)
        old = st.old
        alloc_old = self.heap_arrays(old, self.alloc_key)['']
        for key in sorted(set(st.heap) | set(old.heap)):
            if key == self.alloc_key:
                continue
            new_arrs, old_arrs = self.heap_arrays(st, key), self.heap_arrays(old, key)
            if all(new_arrs[s].eq(old_arrs[s]) for s in new_arrs):
                continue
            if key in mods and mods[key] is None:
                continue
            r = z3.Const(fresh_name('fr'), Ref)
            allowed = mods.get(key, [])
            cond = z3.And([r != a for a in allowed] + [z3.Select(alloc_old, r)])
            same = z3.And([z3.Select(new_arrs[s], r) == z3.Select(old_arrs[s], r) for s in new_arrs])
            self.oblige(st, 'frame', key, z3.ForAll([r], z3.Implies(cond, same)), 'modifies only %s' % (self.ct.modifies,), where=how)

    def number_loops(self, fn):
        """loops are keyed by their ordinal in source order within the function (nested functions included)"""
        self.loop_ordinals = {}
        loops = [n for n in ast.walk(fn) if isinstance(n, (ast.For, ast.While))]
        loops.sort(key=lambda n: (n.lineno, n.col_offset))
        for k, n in enumerate(loops):
            self.loop_ordinals[id(n)] = k
