"""Calls: callee contracts (modular), spec functions (inlined), closures (inlined), builtins and library models (LIB, assumed)."""
import ast

import z3

from .sorts import (PyStarSeq, PyTypeOf, PyNav, PyDict, PyProperty, ArrT, SV, PyVal, PyTuple, Closure, BoundMethod, ModuleRef, ClassRef, SpecFn, INT, BOOL, STR, REAL, VAL, NONE,
                    NONE_V, RefT, SeqT, SetT, MapT, TupT, Val, Ref, null, zsort, fresh, mk_bool, mk_int, mk_str, fresh_name)
from .values import (nth, OutsideSubset, coerce, box, unbox, py_eq, truthy, ite, tup_items, empty_map, join_sort, is_ref,
                     int_to_str, str_to_int, is_int_literal, default_term)
from .state import St, PyRaise, PathEnd

U = z3.Function('str_upper', z3.StringSort(), z3.StringSort())
L = z3.Function('str_lower', z3.StringSort(), z3.StringSort())


def case_axioms(s):
    """LIB axioms of str.upper/str.lower, instantiated on one term (ground instances keep the queries quantifier-free)"""
    return [U(U(s)) == U(s), L(L(s)) == L(s), U(L(s)) == U(s), L(U(s)) == L(s),
            z3.Length(U(s)) == z3.Length(s), z3.Length(L(s)) == z3.Length(s)]


class CallMixin(object):

    def ev_Call(self, node, st):
        f = node.func
        if isinstance(f, ast.Name):
            n = f.id
            if self.spec_mode:
                if n == 'old':
                    return self.ev_old(node.args[0], st)
                if n in ('all', 'any') and node.args and isinstance(node.args[0], ast.GeneratorExp):
                    return self.quantifier(node.args[0], st, n == 'all')
                if n == 'implies':
                    a = self.ev_truth(node.args[0], st)
                    b = self.ev_truth(node.args[1], st)
                    return mk_bool(z3.Implies(a, b))
                if n == 'ite':
                    return ite(self.ev_truth(node.args[0], st), self.ev(node.args[1], st), self.ev(node.args[2], st))
                if n == 'unchanged':
                    return self.spec_unchanged(node, st)
                if n == 'fresh':
                    r = self.ev(node.args[0], st)
                    old_alloc = self.heap_arrays(st.old, self.alloc_key)['']
                    return mk_bool(z3.And(r.t != null, z3.Not(z3.Select(old_alloc, r.t)), self.allocated(st, r.t)))
            if n in ('all', 'any') and node.args and isinstance(node.args[0], ast.GeneratorExp):
                raise OutsideSubset('all/any over a generator in code')
        if (isinstance(f, ast.Name) and f.id == 'dict' and len(node.args) == 1 and isinstance(node.args[0], ast.GeneratorExp)
                and not node.keywords and not self.spec_mode):
            # dict(<generator>): over-approximated by an arbitrary well-formed dictionary (sound: nothing is assumed about it)
            m = fresh(MapT(VAL, VAL), 'dict_of_generator')
            self.assume_map_wf(st, m)
            return m
        fv = self.ev(f, st)
        args = []
        for a in node.args:
            if isinstance(a, ast.Starred):
                sv = self.ev(a.value, st)
                if isinstance(sv, PyTuple):
                    args.extend(sv.items)
                elif isinstance(getattr(sv, 'sort', None), SeqT) and a is node.args[-1]:
                    args.append(PyStarSeq(sv))          # f(x, *seq): bound as a whole to the callee's *parameter
                else:
                    raise OutsideSubset('*args of symbolic length')
            else:
                args.append(self.ev(a, st))
        kwargs = {}
        for k in node.keywords:
            if k.arg is None:
                sv = self.ev(k.value, st)
                if isinstance(sv, PyDict):
                    kwargs.update(sv.items)
                else:
                    raise OutsideSubset('**kwargs of symbolic shape')
            else:
                kwargs[k.arg] = self.ev(k.value, st)
        return self.call_value(fv, args, kwargs, st, node)

    def ev_old(self, node, st):
        if st.old is None:
            raise OutsideSubset('old() outside a post-state')
        if isinstance(node, ast.Name) and node.id in st.old.env:
            return st.old.env[node.id]           # old(x) of a variable: its value at entry
        s2 = St()
        s2.env = st.env
        s2.pc = st.pc
        s2.heap = dict((k, dict(v)) for k, v in st.old.heap.items())
        for k in st.heap:                 # fields first touched after entry have their initial symbol in both
            if k not in s2.heap:
                s2.heap[k] = self.heap_arrays(st.old, k)
        s2.old = st.old
        s2.yielded = st.yielded
        return self.ev(node, s2)

    def spec_unchanged(self, node, st):
        """unchanged(): the whole heap equals the entry heap; unchanged('Class.attr', ...): those fields"""
        old = st.old
        keys = [a.value for a in node.args] if node.args else sorted(set(st.heap) | set(old.heap))
        conj = []
        for key in keys:
            if key == self.alloc_key:
                continue
            if key not in self.reg.fields:
                k2 = self.reg.field_key(*key.split('.', 1)) if '.' in key else None
                if k2 is None:
                    raise OutsideSubset('unchanged(%s): unknown field' % key)
                key = k2
            a, b = self.heap_arrays(st, key), self.heap_arrays(old, key)
            for s in a:
                if not a[s].eq(b[s]):
                    conj.append(a[s] == b[s])
        return mk_bool(z3.And(conj) if conj else z3.BoolVal(True))

    # ---------------------------------------------------------------- dispatch
    def call_value(self, fv, args, kwargs, st, node=None):
        if isinstance(fv, SpecFn):
            n = fv.name
            if n.startswith('builtin:'):
                return self.call_builtin(n[8:], args, kwargs, st, node)
            if n.startswith('func:') and n[5:] in ('navigate_one', 'navigate_any', 'navigate_many') and self.reg.function(n[5:]) is None:
                return PyNav({'navigate_one': 'one', 'navigate_any': 'one', 'navigate_many': 'many'}[n[5:]], args[0])
            if n.startswith('func:'):
                if '.' in n:
                    mod, base = n[5:].rsplit('.', 1)
                    n = 'func:' + base
                else:
                    mod = self.cur_module
                ct = self.reg.function(n[5:], module=mod)
                if ct is None:
                    if n[5:] in self.reg.specfns:
                        return self.call_specfn(n[5:], args, kwargs, st)
                    helper = self.find_module_helper(n[5:])
                    if helper is not None and not self.spec_mode:
                        return self.inline_helper(helper, args, kwargs, st)
                    raise OutsideSubset('call to %s: no contract' % n[5:])
                return self.call_contract(ct, args, kwargs, st)
            return self.call_specfn(n, args, kwargs, st)
        if isinstance(fv, BoundMethod) and isinstance(fv.recv, PyDict):
            d = fv.recv.items
            if fv.name == 'keys':
                return PyTuple([mk_str(k) for k in d])
            if fv.name == 'values':
                return PyTuple(list(d.values()))
            return PyTuple([PyTuple([mk_str(k), v]) for k, v in d.items()])
        if isinstance(fv, PyNav):
            return self.finish_nav(fv, args, st)
        if isinstance(fv, BoundMethod) and isinstance(fv.recv, PyNav) and fv.name == 'nav':
            kl = z3.simplify(args[0].t)
            if not z3.is_string_value(kl):
                raise OutsideSubset('nav() with a computed class')
            step = PyNav(fv.recv.kind, fv.recv.handle, fv.recv.chain, kl.as_string())
            return self.getitem(step, PyTuple(args[1:]) if len(args) > 2 else args[1], st)
        if isinstance(fv, Closure):
            return self.call_closure(fv, args, kwargs, st)
        if isinstance(fv, ClassRef):
            return self.construct(fv.name, args, kwargs, st)
        if isinstance(fv, BoundMethod):
            recv = fv.recv
            if isinstance(recv, ClassRef):
                ct = self.reg.method(recv.name, fv.name)
                if ct is None:
                    raise OutsideSubset('call to %s.%s: no contract' % (recv.name, fv.name))
                return self.call_contract(ct, args, kwargs, st)
            if is_ref(recv.sort):
                ct = self.reg.method(recv.sort.cls, fv.name, args)
                if ct is None and self.reg.class_info(recv.sort.cls, 'dictfield') and fv.name in ('items', 'keys', 'values', 'get'):
                    return self.call_lib_method(self.dict_of(st, recv), fv.name, args, kwargs, st, None)
                if ct is None:
                    helper = self.find_helper(recv.sort.cls, fv.name)
                    if helper is not None and not self.spec_mode:
                        static = any(ast.unparse(d) == 'staticmethod' for d in helper.decorator_list)
                        return self.inline_helper(helper, ([] if static else [recv]) + args, kwargs, st)
                    raise OutsideSubset('call to %s.%s: no contract' % (recv.sort.cls, fv.name))
                if not self.spec_mode:
                    self.raise_if(st, recv.t == null, 'AttributeError', 'method call on None')
                real = self.find_helper(recv.sort.cls, fv.name)
                if real is not None and any(ast.unparse(d) == 'staticmethod' for d in real.decorator_list):
                    return self.call_contract(ct, args, kwargs, st)        # a static method reached through an instance: no receiver
                return self.call_contract(ct, [recv] + args, kwargs, st)
            return self.call_lib_method(recv, fv.name, args, kwargs, st, node)
        if isinstance(fv, SV) and is_ref(fv.sort) and fv.sort.cls == 'type' and not args and not kwargs and not self.spec_mode:
            # calling a class object held in a field (MetaClass.clazz, built by type(kind, (Class,), dict(__metaclass__=mc))):
            # a new instance with an empty instance dictionary whose class attribute __metaclass__ is the ghost type.metaclass
            key = self.reg.field_key('type', 'metaclass')
            if key is None:
                raise OutsideSubset('call of a class object without the ghost field type.metaclass')
            self.raise_if(st, fv.t == null, 'TypeError', 'call of None')
            obj = self.allocate(st, 'Class')
            self.heap_set(st, self.reg.field_key('Class', '__metaclass__'), obj.t, self.heap_get(st, key, fv.t))
            dk = self.reg.field_key('Class', '__dict__')
            if dk is not None:
                self.heap_set(st, dk, obj.t, empty_map(self.reg.fields[dk]))
            return obj
        raise OutsideSubset('call of %s' % type(fv).__name__)

    def call_specfn(self, name, args, kwargs, st):
        if name in self.reg.uninterp:
            psorts, rsort = self.reg.uninterp[name]
            f = z3.Function('u_' + name, *([zsort(p) for p in psorts] + [zsort(rsort)]))
            return SV(rsort, f(*[coerce(a, p).t for a, p in zip(args, psorts)]))
        fn = self.reg.specfns[name]
        if name in self.reg.spec_sorts:
            return self.call_rec_specfn(name, fn, args, st)
        if self.spec_depth > 40:
            raise OutsideSubset('spec function recursion too deep: %s (declare its sorts to make it a recursive definition)' % name)
        params = [a.arg for a in fn.args.args]
        env = {}
        defaults = fn.args.defaults
        for i, p in enumerate(params):
            if i < len(args):
                env[p] = args[i]
            elif p in kwargs:
                env[p] = kwargs[p]
            else:
                d = defaults[i - (len(params) - len(defaults))]
                env[p] = self.ev(d, st)
        body = [s for s in fn.body if not (isinstance(s, ast.Expr) and isinstance(s.value, ast.Constant))]
        saved, saved_mode = st.env, self.spec_mode
        st.env = env
        self.spec_mode += 1
        self.spec_depth += 1
        try:
            if len(body) == 1 and isinstance(body[0], ast.Return):
                return self.ev(body[0].value, st)
            # small straight-line spec functions: assignments then return
            for s in body[:-1]:
                if not isinstance(s, ast.Assign):
                    raise OutsideSubset('spec function %s: only assignments and a final return' % name)
                self.assign(s.targets[0], self.ev(s.value, st), st)
            return self.ev(body[-1].value, st)
        finally:
            st.env = saved
            self.spec_mode = saved_mode
            self.spec_depth -= 1

    def call_rec_specfn(self, name, fn, args, st):
        """recursive spec function: z3 RecFunction over its declared sorts plus the heap fields it reads"""
        psorts, rsort, heap_keys = self.reg.spec_sorts[name]
        heap_keys = list(heap_keys)
        key = name
        if key not in self.defined_recs:
            zps = [zsort(s) for s in psorts]
            hps = []
            for hk in heap_keys:
                for suf, zs in self.field_sort(hk).comps():
                    hps.append((hk, suf, z3.ArraySort(Ref, zs)))
            f = z3.RecFunction(fresh_name('spec_' + name), *(zps + [h[2] for h in hps] + [zsort(rsort)]))
            self.defined_recs[key] = (f, hps, None)
            formals = [z3.Const('%s_p%d' % (name, i), zs) for i, zs in enumerate(zps)]
            hformals = [z3.Const('%s_h%d' % (name, i), h[2]) for i, h in enumerate(hps)]
            s2 = St()
            s2.pc = []
            for (hk, suf, _), hf in zip(hps, hformals):
                s2.heap.setdefault(hk, {})[suf] = hf
            params = [a.arg for a in fn.args.args]
            s2.env = dict((p, SV(s, t)) for p, s, t in zip(params, psorts, formals))
            saved_mode = self.spec_mode
            self.spec_mode += 1
            self._defining_rec = True
            self.rec_formals = getattr(self, 'rec_formals', {})
            self.rec_formals[name] = hformals
            try:
                body = [s for s in fn.body if not (isinstance(s, ast.Expr) and isinstance(s.value, ast.Constant))]
                res = coerce(self.ev(body[-1].value, s2), rsort)
            finally:
                self.spec_mode = saved_mode
                self._defining_rec = False
            # s2.pc only holds type-invariant facts about the formals (allocatedness of references read from the heap): not needed
            z3.RecAddDefinition(f, formals + hformals, res.t)
        f, hps, _ = self.defined_recs[key]
        hargs = [self.heap_arrays(st, hk)[suf] for hk, suf, _ in hps]
        zargs = [coerce(a, s).t for a, s in zip(args, psorts)]
        app = f(*(zargs + hargs))
        unfolding = self.__dict__.setdefault('_unfolding', set())
        if name not in unfolding and not getattr(self, '_defining_rec', False):
            # one explicit unfolding at the actual arguments (the solver's own unfolding of recursive definitions is lazy and
            # often too late for the induction step of a loop invariant)
            unfolding.add(name)
            try:
                params = [a.arg for a in fn.args.args]
                saved = st.env
                st.env = dict((p, coerce(a, s)) for p, a, s in zip(params, args, psorts))
                self.spec_mode += 1
                try:
                    body = [b for b in fn.body if not (isinstance(b, ast.Expr) and isinstance(b.value, ast.Constant))]
                    val = coerce(self.ev(body[-1].value, st), rsort)
                finally:
                    self.spec_mode -= 1
                    st.env = saved
                st.assume(app == val.t)
            finally:
                unfolding.discard(name)
        return SV(rsort, app)

    def call_closure(self, c, args, kwargs, st):
        node = c.node
        params = [a.arg for a in node.args.args]
        env = dict(c.env)
        env.update(dict((k, v) for k, v in st.env.items() if k in c.env))     # late binding of captured variables
        defaults = node.args.defaults
        for i, p in enumerate(params):
            if i < len(args):
                env[p] = args[i]
            elif p in kwargs:
                env[p] = kwargs[p]
            elif i >= len(params) - len(defaults):
                env[p] = self.ev(defaults[i - (len(params) - len(defaults))], st)
            else:
                raise OutsideSubset('closure arity')
        saved = st.env
        st.env = env
        try:
            if isinstance(node, ast.Lambda):
                return self.ev(node.body, st)
            out = self.exec_block(node.body, st)
            if out[0] == 'return':
                return out[1]
            return NONE_V
        finally:
            st.env = saved

    def construct(self, cls, args, kwargs, st):
        if self.exc_subclass(cls, 'BaseException'):
            return SV(RefT(cls), z3.Const(fresh_name('exc'), Ref))
        ct = self.reg.method(cls, '__init__')
        ctor = self.reg.class_info(cls, 'ctor')
        if ctor is not None:
            return self.call_contract(self.reg.contracts[ctor], args, kwargs, st)
        variants = self.reg.class_info(cls, 'init_variants')
        if variants is not None:
            ct = self.reg.contracts[variants[len(args) + len(kwargs)]]
        obj = self.allocate(st, cls)
        if ct is not None:
            self.call_contract(ct, [obj] + args, kwargs, st)
        elif args or kwargs:
            init = self.find_helper(cls, '__init__')
            if init is None or self.spec_mode:
                raise OutsideSubset('constructor %s: no contract' % cls)
            self.inline_helper(init, [obj] + args, kwargs, st)      # a plain __init__ of the repository runs as part of the caller
        return obj

    def finish_nav(self, nav, args, st):
        """one(x).A[1].B[2](filter): the navigation DSL, lowered to the abstract result nav(x, chain, filter) — assumed contract of
        xtuml.meta.NavChain (C09): the `one`/`any` forms return the first element of the `many` form or None"""
        if nav.pending is not None:
            raise OutsideSubset('navigation without association')
        filt = 0
        if args:
            if len(args) != 1 or not isinstance(args[0], Closure):
                raise OutsideSubset('navigation filter that is not a lambda')
            filt = int.from_bytes(__import__('hashlib').sha1(ast.unparse(args[0].node).encode()).digest()[:4], 'big')
        h = nav.handle
        chain = z3.StringVal(nav.chain)
        if isinstance(h, PyVal):
            raise OutsideSubset('navigation from a verification-time value')
        if (is_ref(h.sort) or h.sort == NONE or h.sort == VAL) and nav.kind == 'one' and filt == 0:
            # single steps a contracts module tracks as ghost partner fields (Class.nav_<KL>_<rel>) are read from the heap
            steps = nav.chain.split('.')
            cur = coerce(h, RefT('Class'))
            while steps:
                key = self.reg.field_key('Class', 'nav_' + steps[0].replace('[', '_').replace(']', '').replace(',', '_').replace("'", '').replace(' ', ''))
                if key is None:
                    break
                nxt = self.heap_get(st, key, cur.t)
                cur = SV(RefT('Class'), z3.If(cur.t == null, null, nxt.t))
                steps.pop(0)
            if not steps:
                return cur
            if cur.t is not coerce(h, RefT('Class')).t:
                nav = PyNav(nav.kind, cur, '.'.join(steps), None)
                h = cur
                chain = z3.StringVal(nav.chain)
        if is_ref(h.sort) or h.sort == NONE or h.sort == VAL:
            hv = coerce(h, RefT('Class')).t
            allf = z3.Function('u_nav_all', Ref, z3.StringSort(), z3.IntSort(), z3.SeqSort(Ref))
            seq = allf(hv, chain, z3.IntVal(filt))
        elif isinstance(h.sort, SeqT):
            allf = z3.Function('u_nav_all_from_set', z3.SeqSort(Ref), z3.StringSort(), z3.IntSort(), z3.SeqSort(Ref))
            seq = allf(coerce(h, SeqT(RefT('Class'))).t, chain, z3.IntVal(filt))
        else:
            raise OutsideSubset('navigation from %s' % h.sort)
        if nav.kind == 'many':
            return SV(SeqT(RefT('Class')), seq)
        r = SV(RefT('Class'), z3.If(z3.Length(seq) > 0, nth(seq, 0), null))
        if 'kind_of' in self.reg.uninterp and not self.spec_mode:
            # A-NAV-KIND: a navigation ends in instances of the class named by its last step
            last = nav.chain.rsplit('.', 1)[-1].split('[')[0]
            kf = z3.Function('u_kind_of', Ref, z3.StringSort())
            st.assume(z3.Or(r.t == null, kf(r.t) == z3.StringVal(last)))
        return r

    def find_helper(self, cls, name):
        """a method without contract that is defined in the source of the receiver's class (or a base class in the repo): helpers
        introduced by a refactoring are executed as part of the caller (inlined, depth-limited), not treated as unknown callees"""
        for c in self.reg.mro(cls):
            ci = self.prog.classes.get(c)
            if ci and name in ci['methods'] and not ci['module'].startswith('_collections'):
                return ci['methods'][name]
        return None

    def find_module_helper(self, name):
        if not self.cur_module or self.cur_module.startswith('contracts'):
            return None
        path, tree, src = self.prog.load(self.cur_module)
        for t in tree.body:
            if isinstance(t, ast.FunctionDef) and t.name == name:
                return t
        return None

    def inline_helper(self, fn, args, kwargs, st):
        depth = getattr(self, '_inline_depth', 0)
        if depth >= 3:
            raise OutsideSubset('helper inlining deeper than 3 (%s)' % fn.name)
        self._inline_depth = depth + 1
        try:
            return self.call_closure(Closure(fn, {}, None), args, kwargs, st)
        finally:
            self._inline_depth = depth

    # ---------------------------------------------------------------- callee contracts
    def bind_args(self, ct, args, kwargs, st):
        env = {}
        names = ct.param_names()
        params = list(ct.params)
        if params and params[-1][0].startswith('**'):
            dstar = params.pop()
            known = set(p[0] for p in params)
            env[dstar[0][2:]] = PyDict((k, v) for k, v in kwargs.items() if k not in known)
            kwargs = dict((k, v) for k, v in kwargs.items() if k in known)
            names = names[:-1]
        if params and params[-1][0].startswith('*'):
            star = params.pop()
            rest = args[len(params):]
            if len(rest) == 1 and isinstance(rest[0], PyStarSeq):
                env[star[0][1:]] = rest[0].seq
            elif any(isinstance(x, PyStarSeq) for x in args):
                raise OutsideSubset('*sequence mixed with positional arguments of the star parameter')
            else:
                env[star[0][1:]] = PyTuple(rest)
            args = args[:len(params)]
            names = names[:-1]
        if len(args) > len(names):
            raise OutsideSubset('too many arguments for %s' % ct.qual)
        for i, p in enumerate(params):
            name, sort = p[0], p[1]
            if i < len(args):
                v = args[i]
            elif name in kwargs:
                v = kwargs[name]
            elif len(p) > 2:
                v = self.spec_eval(p[2], st, {})
            else:
                raise OutsideSubset('missing argument %s for %s' % (name, ct.qual))
            if isinstance(sort, PyVal) or sort is None:
                env[name] = v
            else:
                env[name] = coerce(v, sort)
        for k in kwargs:
            if k not in names:
                raise OutsideSubset('unexpected keyword %s for %s' % (k, ct.qual))
        return env

    def call_contract(self, ct, args, kwargs, st):
        before = self.ct.ghost.get('before_call', {}).get(ct.qual.split('@')[0].split('.')[-1])
        if before and not self.spec_mode:
            for target, text in before:               # ghost assignments the sidecar places in front of this call
                val = self.spec_eval(text, st)
                base, _, attr = target.rpartition('.')
                recv = self.spec_eval(base, st)
                self.heap_set(st, self.reg.field_key(recv.sort.cls, attr), recv.t, val)
        env = self.bind_args(ct, args, kwargs, st)
        pre = St()
        pre.env = env
        pre.pc = st.pc
        pre.heap = st.heap
        pre.old = None
        for name, v in ct.statics.items():
            env.setdefault(name, v)
        for name, text in ct.lets.items():
            env[name] = self.spec_eval(text, pre)
        in_spec = self.spec_mode > 0
        if in_spec and (ct.modifies):
            raise OutsideSubset('call of heap-modifying %s inside a specification' % ct.qual)
        for lbl, text in ct.requires.items():
            c = self.spec_bool(text, pre)
            if in_spec:
                continue
            self.oblige(st, 'precondition', '%s:%s' % (ct.qual.split('.')[-1], lbl), c, text)
            st.assume(c)
        whens = [self.spec_bool(r.when, pre) for r in ct.raises]
        old = St()
        old.env = env
        old.heap = dict((k, dict(v)) for k, v in st.heap.items())
        old.pc = st.pc
        if ct.raises and not in_spec:
            k = self.choose_n(len(ct.raises) + 1, 'call ' + ct.qual)
            if k > 0:
                r = ct.raises[k - 1]
                st.assume(whens[k - 1])
                self.apply_post(ct, r.post, env, old, st, None, exceptional=True)
                raise PyRaise(r.exc, st, 'call of ' + ct.qual)
            for w in whens:
                st.assume(z3.Not(w))
        guard = None
        if ct.raises and in_spec:
            # inside a specification the call is a term: its contract only speaks when no exceptional clause applies
            guard = z3.Not(z3.Or(whens)) if len(whens) > 1 else z3.Not(whens[0])
        result = None
        if ct.returns is not None and not isinstance(ct.returns, PyVal):
            rs = SeqT(ct.yields) if ct.kind == 'generator' else ct.returns
            result = fresh(rs, 'res_' + ct.qual.split('.')[-1]) if rs != NONE else NONE_V
        elif ct.kind == 'generator':
            result = fresh(SeqT(ct.yields), 'gen_' + ct.qual.split('.')[-1])
        live_before = None if in_spec else self.qf_consistent(st)
        self.apply_post(ct, ct.ensures, env, old, st, result, exceptional=False, guard=guard)
        if live_before and not self.qf_consistent(st):
            # vacuity guard: a postcondition that contradicts what is known at the call site would make everything after it provable
            raise OutsideSubset('the postcondition of %s contradicts the state at its call site (vacuous continuation)' % ct.qual)
        if ct.ghost.get('kwargs_set_attrs') and result is not None:
            # keyword arguments of an instance constructor become the attribute values of the new instance (any spelling: C10)
            sa = self.reg.method(result.sort.cls, '__setattr__')
            f = z3.Function('u_attr_value', Ref, z3.StringSort(), Val)
            for k, v in env[ct.ghost['kwargs_set_attrs']].items.items():
                if sa is not None:
                    self.call_contract(sa, [result, mk_str(k), v], {}, st)
                else:
                    st.assume(f(result.t, z3.StringVal(k.upper())) == box(v).t)
        if result is None:
            return NONE_V
        self.assume_type_invariant(st, result)
        return result

    def apply_post(self, ct, post, env, old, st, result, exceptional, guard=None):
        # havoc what the callee may modify, then assume its postcondition
        only_unchanged = exceptional and list(post.values()) == ['unchanged()']
        if not only_unchanged:
            cex = self.__class__(self.reg, ct)
            cex.typeof, cex.class_ids = self.typeof, self.class_ids
            mods = cex.modifies_sets(old)
            for key, refs in mods.items():
                arrs = self.heap_arrays(st, key)
                old.heap.setdefault(key, dict(arrs))
                if refs is None:
                    new = dict((suf, z3.Const(fresh_name('H.%s.%s' % (key, suf)), a.sort())) for suf, a in arrs.items())
                    # objects allocated before the call and not of interest keep... (whole-field modifies: no frame)
                elif key in cex.fresh_only:
                    new = dict((suf, z3.Const(fresh_name('H.%s.%s' % (key, suf)), a.sort())) for suf, a in arrs.items())
                    alloc_now = self.heap_arrays(st, self.alloc_key)['']
                    fr = z3.Const(fresh_name('fo'), Ref)
                    keep = [z3.Select(new[suf], fr) == z3.Select(arrs[suf], fr) for suf in arrs]
                    for r in refs:
                        keep = [z3.Or(fr == r, k) for k in keep]
                    st.assume(z3.ForAll([fr], z3.Implies(z3.Select(alloc_now, fr), z3.And(keep))))
                else:
                    new = dict(arrs)
                    for r in refs:
                        for suf, a in arrs.items():
                            new[suf] = z3.Store(new[suf], r, z3.Const(fresh_name('hv.%s.%s' % (key, suf)), a.sort().range()))
                st.heap[key] = new
            if ct.ghost.get('allocates'):
                old_alloc = self.heap_arrays(st, self.alloc_key)['']
                new_alloc = z3.Const(fresh_name('H.alloc'), old_alloc.sort())
                r = z3.Const(fresh_name('ar'), Ref)
                st.assume(z3.ForAll([r], z3.Implies(z3.Select(old_alloc, r), z3.Select(new_alloc, r))))
                st.heap[self.alloc_key] = {'': new_alloc}
        post_st = St()
        post_st.env = dict(env)
        post_st.pc = st.pc
        post_st.heap = st.heap
        post_st.old = old
        for k in list(st.heap):
            if k not in old.heap:
                old.heap[k] = dict(st.heap[k])
        if result is not None:
            post_st.env['result'] = result
        self.spec_mode += 1
        try:
            for lbl, text in post.items():
                if text == 'unchanged()' and only_unchanged:
                    continue
                f = self.spec_bool(text, post_st)
                st.assume(f if guard is None else z3.Implies(guard, f))
        finally:
            self.spec_mode -= 1
        st.heap = post_st.heap

    # ---------------------------------------------------------------- builtins (LIB: assumed models of CPython builtins)
    def call_builtin(self, n, args, kwargs, st, node):
        m = getattr(self, 'bi_' + n, None)
        if m is None:
            raise OutsideSubset('builtin %s' % n)
        return m(args, kwargs, st, node)

    def bi_property(self, args, kwargs, st, node):
        fget = args[0] if args else kwargs.get('fget')
        fset = args[1] if len(args) > 1 else kwargs.get('fset')
        return PyProperty(fget, fset)

    def bi_log(self, args, kwargs, st, node):
        return NONE_V

    def bi_print(self, args, kwargs, st, node):
        return NONE_V

    def bi_len(self, args, kwargs, st, node):
        v = args[0]
        if isinstance(v, PyTuple):
            return mk_int(len(v.items))
        s = v.sort
        if isinstance(s, SeqT):
            return SV(INT, z3.Length(v.t)) if s.elem is not None else mk_int(0)
        if s == STR:
            return SV(INT, z3.Length(v.t))
        if isinstance(s, MapT):
            return SV(INT, z3.Length(v.c['keys'])) if s.k is not None else mk_int(0)
        if isinstance(s, TupT):
            return mk_int(len(s.elems))
        if is_ref(s) and self.reg.class_info(s.cls, 'dictfield'):
            return self.bi_len([self.dict_of(st, v)], kwargs, st, node)
        if is_ref(s):
            n = self.len_of_ref(st)(v)
            if n is not None:
                return SV(INT, n)
            m = self.reg.method(s.cls, '__len__')
            if m is not None:
                return self.call_contract(m, [v], {}, st)
        if s == VAL:
            return SV(INT, z3.Length(Val.sval(v.t)))      # len() of a Val is only used on strings in the repo (_is_null)
        raise OutsideSubset('len of %s' % s)

    def bi_isinstance(self, args, kwargs, st, node):
        v, c = args
        classes = [x for x in (c.items if isinstance(c, PyTuple) else [c])]
        terms = []
        for cl in classes:
            if isinstance(cl, SpecFn) and cl.name.startswith('builtin:'):
                name = cl.name[8:]
            elif isinstance(cl, ClassRef):
                name = cl.name
            else:
                raise OutsideSubset('isinstance class argument')
            terms.append(self.isinstance_one(v, name, st))
        return mk_bool(z3.Or(terms) if len(terms) > 1 else terms[0])

    def isinstance_one(self, v, name, st):
        if isinstance(v, PyTuple):
            return z3.BoolVal(name == 'tuple')
        if isinstance(v, PyVal):
            return z3.BoolVal(False)
        s = v.sort
        prim = {'int': (INT, BOOL), 'str': (STR,), 'bool': (BOOL,), 'float': (REAL,), 'list': (), 'dict': (), 'tuple': (), 'set': ()}
        if s == VAL:
            t = v.t
            if name == 'int':
                return z3.Or(Val.is_VInt(t), Val.is_VBool(t))
            if name == 'str':
                return Val.is_VStr(t)
            if name == 'bool':
                return Val.is_VBool(t)
            if name == 'float':
                return Val.is_VReal(t)
            if name in prim:
                return z3.BoolVal(False)
            return z3.And(Val.is_VRef(t), self.isinstance_term(Val.rval(t), name))
        if name in prim:
            if name == 'list':
                return z3.BoolVal(isinstance(s, SeqT))
            if name == 'dict':
                return z3.BoolVal(isinstance(s, MapT))
            if name == 'tuple':
                return z3.BoolVal(isinstance(s, TupT))
            return z3.BoolVal(s in prim[name])
        if is_ref(s):
            if s.cls is not None and name in self.reg.mro(s.cls):
                return v.t != null
            return self.isinstance_term(v.t, name)
        return z3.BoolVal(False)

    def bi_bool(self, args, kwargs, st, node):
        return mk_bool(self.truth(st, args[0])) if args else mk_bool(False)

    def bi_str(self, args, kwargs, st, node):
        if not args:
            return mk_str('')
        return SV(STR, self.to_str(args[0], st))

    def bi_int(self, args, kwargs, st, node):
        v = args[0]
        if v.sort == INT:
            return v
        if v.sort == BOOL:
            return coerce(v, INT)
        if v.sort == STR:
            if not self.spec_mode:
                self.raise_if(st, z3.Not(is_int_literal(v.t)), 'ValueError', 'int() of a non-numeric string')
            return SV(INT, str_to_int(v.t))
        if v.sort == VAL:
            return unbox(v, INT)
        raise OutsideSubset('int() of %s' % v.sort)

    def bi_sorted(self, args, kwargs, st, node):
        """LIB (A-SORT): sorted(seq) without key is an abstract permutation of the sequence (same length)"""
        if kwargs:
            raise OutsideSubset('sorted with key/reverse')
        seq = self.as_seq(args[0], st)
        f = z3.Function('sorted_' + seq.t.sort().name().replace(' ', '_').replace('(', '').replace(')', ''), seq.t.sort(), seq.t.sort())
        r = f(seq.t)
        st.assume(z3.Length(r) == z3.Length(seq.t))
        return SV(seq.sort, r)

    def bi_join(self, args, kwargs, st, node):
        """spec: join(sep, seq) is the same abstract function str.join is modelled by"""
        f = z3.Function('str_join', z3.StringSort(), z3.SeqSort(z3.StringSort()), z3.StringSort())
        return SV(STR, f(coerce(args[0], STR).t, coerce(self.as_seq(args[1], st), SeqT(STR)).t))

    def bi_float(self, args, kwargs, st, node):
        """LIB (A-FLOAT): float(str) is an abstract parse; it raises ValueError unless the text is a float literal (abstract predicate)"""
        v = args[0]
        if v.sort == REAL:
            return v
        if v.sort == INT:
            return coerce(v, REAL)
        if v.sort in (STR, VAL):
            sv = coerce(v, STR).t
            ok = z3.Function('float_literal', z3.StringSort(), z3.BoolSort())
            if not self.spec_mode:
                self.raise_if(st, z3.Not(ok(sv)), 'ValueError', 'float() of a non-numeric string')
            return SV(REAL, z3.Function('parse_float', z3.StringSort(), z3.RealSort())(sv))
        raise OutsideSubset('float() of %s' % v.sort)

    def bi_list(self, args, kwargs, st, node):
        if not args:
            return SV(SeqT(None), {})
        return self.as_seq(args[0], st)

    def bi_tuple(self, args, kwargs, st, node):
        if not args:
            return PyTuple([])
        if isinstance(args[0], PyTuple):
            return args[0]
        return self.as_seq(args[0], st)          # immutable sequence value

    def bi_dict(self, args, kwargs, st, node):
        if args:
            if isinstance(getattr(args[0], 'sort', None), MapT):
                return args[0]
            raise OutsideSubset('dict(iterable)')
        return SV(MapT(None, None), {})

    def bi_set(self, args, kwargs, st, node):
        if not args:
            return SV(SetT(None), {})
        v = args[0]
        if isinstance(getattr(v, 'sort', None), SetT):
            return v
        seq = self.as_seq(v, st)
        x = z3.Const(fresh_name('sx'), zsort(seq.sort.elem))
        return SV(SetT(seq.sort.elem), z3.Lambda([x], self.seq_contains(seq, SV(seq.sort.elem, x))))

    bi_frozenset = bi_set

    def bi_type(self, args, kwargs, st, node):
        if len(args) == 1 and isinstance(args[0], SV) and (is_ref(args[0].sort) or args[0].sort == VAL):
            return PyTypeOf(args[0])
        raise OutsideSubset('type() of %s' % getattr(args[0], 'sort', type(args[0]).__name__))

    def bi_range(self, args, kwargs, st, node):
        if len(args) not in (1, 2):
            raise OutsideSubset('range with a step')
        lo = mk_int(0).t if len(args) == 1 else coerce(args[0], INT).t
        hi = coerce(args[-1], INT).t
        r = fresh(SeqT(INT), 'range')
        n = z3.If(hi > lo, hi - lo, 0)
        i = z3.Int(fresh_name('gi'))
        st.assume(z3.Length(r.t) == n)
        st.assume(z3.ForAll([i], z3.Implies(z3.And(0 <= i, i < n), nth(r.t, i) == lo + i)))
        return r

    def bi_iter(self, args, kwargs, st, node):
        return self.as_seq(args[0], st)

    def bi_next(self, args, kwargs, st, node):
        v = args[0]
        if is_ref(getattr(v, 'sort', None)):
            m = self.reg.method(v.sort.cls, '__next__')
            if m is not None:
                return self.call_contract(m, [v], {}, st)
        seq = self.as_seq(v, st)
        if len(args) > 1:
            return ite(z3.Length(seq.t) > 0, SV(seq.sort.elem, nth(seq.t, 0)), args[1])
        self.raise_if(st, z3.Length(seq.t) == 0, 'StopIteration', 'next() on exhausted iterator')
        return SV(seq.sort.elem, nth(seq.t, 0))

    def bi_reversed(self, args, kwargs, st, node):
        v = args[0]
        if is_ref(getattr(v, 'sort', None)):
            m = self.reg.method(v.sort.cls, '__reversed__')
            if m is not None:
                return self.call_contract(m, [v], {}, st)
        if isinstance(getattr(v, 'sort', None), SeqT):
            r = fresh(v.sort, 'reversed')
            n = z3.Length(v.t)
            i = z3.Int(fresh_name('ri'))
            st.assume(z3.Length(r.t) == n)
            st.assume(z3.ForAll([i], z3.Implies(z3.And(0 <= i, i < n), nth(r.t, i) == nth(v.t, n - 1 - i))))
            return r
        raise OutsideSubset('reversed of %s' % getattr(v, 'sort', None))

    def bi_zip(self, args, kwargs, st, node):
        if len(args) != 2:
            raise OutsideSubset('zip arity')
        if any(isinstance(x, PyTuple) and not x.items for x in args):
            return PyTuple(())                          # zip with an empty literal tuple: nothing to iterate
        a, b = self.as_seq(args[0], st), self.as_seq(args[1], st)
        ts = TupT(a.sort.elem, b.sort.elem)
        r = fresh(SeqT(ts), 'zip')
        n = z3.If(z3.Length(a.t) < z3.Length(b.t), z3.Length(a.t), z3.Length(b.t))
        i = z3.Int(fresh_name('zi'))
        st.assume(z3.Length(r.t) == n)
        st.assume(z3.ForAll([i], z3.Implies(z3.And(0 <= i, i < n), nth(r.t, i) == ts.z().mk(nth(a.t, i), nth(b.t, i)))))
        return r

    def bi_enumerate(self, args, kwargs, st, node):
        a = self.as_seq(args[0], st)
        ts = TupT(INT, a.sort.elem)
        r = fresh(SeqT(ts), 'enum')
        i = z3.Int(fresh_name('ei'))
        st.assume(z3.Length(r.t) == z3.Length(a.t))
        st.assume(z3.ForAll([i], z3.Implies(z3.And(0 <= i, i < z3.Length(a.t)), nth(r.t, i) == ts.z().mk(i, nth(a.t, i)))))
        return r

    def bi_getattr(self, args, kwargs, st, node):
        obj, name = args[0], args[1]
        if is_ref(getattr(obj, 'sort', None)):
            q = self.reg.class_info(obj.sort.cls, 'getattr')
            if q is not None:
                return self.call_contract(self.reg.contracts[q], args, kwargs, st)
            nm = z3.simplify(name.t)
            if z3.is_string_value(nm) and len(args) == 2:
                return self.getattr_(obj, nm.as_string(), st)
        raise OutsideSubset('getattr on %s' % getattr(obj, 'sort', None))

    def bi_setattr(self, args, kwargs, st, node):
        obj, name, val = args
        if is_ref(getattr(obj, 'sort', None)):
            q = self.reg.class_info(obj.sort.cls, 'setattr')
            if q is not None:
                return self.call_contract(self.reg.contracts[q], args, kwargs, st)
            m = self.reg.method(obj.sort.cls, '__setattr__')
            if m is not None:
                return self.call_contract(m, [obj, name, val], {}, st)
            nm = z3.simplify(name.t)
            if z3.is_string_value(nm):
                self.setattr_(obj, nm.as_string(), val, st)
                return NONE_V
        raise OutsideSubset('setattr on %s' % getattr(obj, 'sort', None))

    def bi_delattr(self, args, kwargs, st, node):
        obj, name = args
        m = self.reg.method(obj.sort.cls, '__delattr__') if is_ref(getattr(obj, 'sort', None)) else None
        if m is None:
            raise OutsideSubset('delattr')
        return self.call_contract(m, [obj, name], {}, st)

    # spec-only helpers
    def bi_upper(self, args, kwargs, st, node):
        t = coerce(args[0], STR).t
        self.use_case_axioms(st, t)
        return SV(STR, U(t))

    def bi_lower(self, args, kwargs, st, node):
        t = coerce(args[0], STR).t
        self.use_case_axioms(st, t)
        return SV(STR, L(t))

    def use_case_axioms(self, st, term):
        seen = self.__dict__.setdefault('_case_terms', set())
        k = term.sexpr()
        if not seen:
            qs = z3.String('case_s')
            self.hyp_axioms += [z3.ForAll([qs], z3.And(case_axioms(qs)[:2] + case_axioms(qs)[4:5]), patterns=[U(qs)]),
                                z3.ForAll([qs], z3.And(case_axioms(qs)[1:2] + case_axioms(qs)[5:6]), patterns=[L(qs)])]
        if k not in seen:
            seen.add(k)
            self.hyp_axioms += case_axioms(term)
            if z3.is_string_value(term):
                v = term.as_string()
                self.hyp_axioms += [U(term) == z3.StringVal(v.upper()), L(term) == z3.StringVal(v.lower())]

    def bi_is_int(self, args, kwargs, st, node):
        v = args[0]
        return mk_bool(Val.is_VInt(v.t) if v.sort == VAL else z3.BoolVal(v.sort == INT))

    def bi_is_str(self, args, kwargs, st, node):
        v = args[0]
        return mk_bool(Val.is_VStr(v.t) if v.sort == VAL else z3.BoolVal(v.sort == STR))

    def bi_is_ref(self, args, kwargs, st, node):
        v = args[0]
        return mk_bool(Val.is_VRef(v.t) if v.sort == VAL else z3.BoolVal(is_ref(v.sort)))

    def bi_as_ref(self, args, kwargs, st, node):
        v = args[0]
        if is_ref(v.sort):
            return v
        cls = z3.simplify(args[1].t).as_string() if len(args) > 1 else 'Class'
        return SV(RefT(cls), z3.If(Val.is_VRef(box(v).t), Val.rval(box(v).t), null))

    def bi_is_bool(self, args, kwargs, st, node):
        v = args[0]
        return mk_bool(Val.is_VBool(v.t) if v.sort == VAL else z3.BoolVal(v.sort == BOOL))

    def bi_is_real(self, args, kwargs, st, node):
        v = args[0]
        return mk_bool(Val.is_VReal(v.t) if v.sort == VAL else z3.BoolVal(v.sort == REAL))

    def bi_class_defaults(self, args, kwargs, st, node):
        """class_defaults(obj, 'C'): every declared field of obj with a class-level constant in the source of C (or a base) still
        has that constant — the state of an object on which no instance attribute was set yet (read from the real class bodies)"""
        obj = args[0]
        cls = z3.simplify(args[1].t).as_string()
        conj = []
        seen = set()
        for c in self.reg.mro(cls):
            ci = self.prog.classes.get(c)
            if not ci:
                continue
            for attr, valnode in ci['attrs'].items():
                key = self.reg.field_key(cls, attr)
                if key is None or attr in seen or not isinstance(valnode, ast.Constant):
                    continue
                seen.add(attr)
                cur = self.heap_get(st, key, obj.t)
                conj.append(py_eq(cur, self.ev_Constant(valnode, st)))
        return mk_bool(z3.And(conj) if conj else z3.BoolVal(True))

    def bi_int_str(self, args, kwargs, st, node):
        return SV(STR, int_to_str(coerce(args[0], INT).t))

    def bi_arr_set(self, args, kwargs, st, node):
        a, k, v = args
        return SV(a.sort, z3.Store(a.t, coerce(k, a.sort.k).t, coerce(v, a.sort.v).t))

    def bi_arr_dec_above(self, args, kwargs, st, node):
        """arr_dec_above(a, i): positions greater than i move down by one"""
        a, i = args
        x = z3.Const(fresh_name('ax'), zsort(a.sort.k))
        return SV(a.sort, z3.Lambda([x], z3.If(z3.Select(a.t, x) > i.t, z3.Select(a.t, x) - 1, z3.Select(a.t, x))))

    def bi_seq_without(self, args, kwargs, st, node):
        """seq_without(s, i): s with position i removed"""
        s, i = args
        return self.seq_remove_at(st, s, i.t)

    def bi_seq_take(self, args, kwargs, st, node):
        s, i = args
        return SV(s.sort, z3.Extract(s.t, 0, i.t))

    def bi_seq_drop(self, args, kwargs, st, node):
        s, i = args
        return SV(s.sort, z3.Extract(s.t, i.t, z3.Length(s.t) - i.t))

    def bi_allocated(self, args, kwargs, st, node):
        return mk_bool(z3.And(args[0].t != null, self.allocated(st, args[0].t)))

    def bi_map_set(self, args, kwargs, st, node):
        return self.map_store(args[0], args[1], args[2], st)

    def bi_map_del(self, args, kwargs, st, node):
        m, k = args[0], coerce(args[1], args[0].sort.k)
        return SV(m.sort, {'dom': z3.Store(m.c['dom'], k.t, z3.BoolVal(False)), 'val': m.c['val'], 'keys': m.c['keys']})

    def bi_same(self, args, kwargs, st, node):
        """same(a, b): identical in every component (for dicts: including insertion order)"""
        a, b = args
        b = coerce(b, a.sort)
        return mk_bool(z3.And([a.c[k] == b.c[k] for k in a.c]) if a.c else z3.BoolVal(True))

    def bi_as_str(self, args, kwargs, st, node):
        return coerce(args[0], STR)

    def bi_as_int(self, args, kwargs, st, node):
        return coerce(args[0], INT)

    def bi_int_literal(self, args, kwargs, st, node):
        """int_literal(s): s is a string int() accepts (optional sign, digits)"""
        return mk_bool(is_int_literal(coerce(args[0], STR).t))

    def bi_float_literal(self, args, kwargs, st, node):
        return mk_bool(z3.Function('float_literal', z3.StringSort(), z3.BoolSort())(coerce(args[0], STR).t))

    def bi_is_digits(self, args, kwargs, st, node):
        return mk_bool(z3.StrToInt(coerce(args[0], STR).t) >= 0)

    def bi_world(self, args, kwargs, st, node):
        """world(): the one object that carries process-wide ghost state (event traces of module-level functions)"""
        return SV(RefT('World'), z3.Const('the_world', Ref))

    def bi_is_none(self, args, kwargs, st, node):
        return mk_bool(py_eq(args[0], NONE_V))

    def bi_seq_remove(self, args, kwargs, st, node):
        """seq_remove(s, x): s without the first occurrence of x (s itself when x does not occur)"""
        s, x = args
        if s.sort.elem is None:
            return s
        xv = coerce(x, s.sort.elem)
        member = self.seq_contains(s, xv)
        p = z3.Int(fresh_name('rp'))
        j = z3.Int(fresh_name('rj'))
        st.assume(z3.Implies(member, z3.And(0 <= p, p < z3.Length(s.t), nth(s.t, p) == xv.t,
                                            z3.ForAll([j], z3.Implies(z3.And(0 <= j, j < p), nth(s.t, j) != xv.t)))))
        st.assume(z3.Implies(z3.Not(member), p == -1))
        r = self.seq_remove_at(st, s, p)
        return SV(s.sort, z3.If(member, r.t, s.t))

    def bi_seq_index(self, args, kwargs, st, node):
        s, x = args
        return SV(INT, z3.IndexOf(s.t, z3.Unit(coerce(x, s.sort.elem).t), 0))

    def bi_map_keys(self, args, kwargs, st, node):
        m = args[0]
        return SV(SeqT(m.sort.k), m.c['keys'])

    # ---------------------------------------------------------------- methods of str / list / dict / set values
    def call_lib_method(self, recv, name, args, kwargs, st, node):
        s = recv.sort
        fnode = node.func.value if node is not None and isinstance(node.func, ast.Attribute) else None
        if s == VAL and name in ('upper', 'lower', 'replace', 'isdigit'):
            recv, s = unbox(recv, STR), STR
        if s == STR:
            if name == 'upper':
                self.use_case_axioms(st, recv.t)
                return SV(STR, U(recv.t))
            if name == 'lower':
                self.use_case_axioms(st, recv.t)
                return SV(STR, L(recv.t))
            if name == 'join':
                seq = self.as_seq(args[0], st)
                f = z3.Function('str_join', z3.StringSort(), z3.SeqSort(z3.StringSort()), z3.StringSort())
                return SV(STR, f(recv.t, coerce(seq, SeqT(STR)).t))
            if name == 'isdigit':
                return mk_bool(z3.StrToInt(recv.t) >= 0)       # exactly the non-empty ASCII digit strings (A: no other Unicode digits)
            if name == 'replace':
                a, b = z3.simplify(args[0].t), z3.simplify(args[1].t)
                if z3.is_string_value(a) and z3.is_string_value(b):
                    f = z3.Function('u_str_replace_all', z3.StringSort(), z3.StringSort(), z3.StringSort(), z3.StringSort())
                    return SV(STR, f(recv.t, a, b))
                raise OutsideSubset('str.replace with symbolic patterns')
            if name == 'count':
                f = z3.Function('u_str_count', z3.StringSort(), z3.StringSort(), z3.IntSort())
                r = f(recv.t, args[0].t)
                st.assume(z3.And(r >= 0, r <= z3.Length(recv.t)))
                return SV(INT, r)
            if name == 'rfind':
                sub = args[0].t
                lo = args[1].t if len(args) > 1 else z3.IntVal(0)
                hi = args[2].t if len(args) > 2 else z3.Length(recv.t)
                return self.str_rfind(recv.t, sub, lo, hi, st)
            if name == 'startswith':
                return mk_bool(z3.PrefixOf(args[0].t, recv.t))
            if name == 'endswith':
                return mk_bool(z3.SuffixOf(args[0].t, recv.t))
        if isinstance(s, SeqT):
            if name == 'append':
                if s.elem is None:
                    decl = self.declared_sort(fnode)
                    es = decl.elem if isinstance(decl, SeqT) else (args[0].sort if not isinstance(args[0], PyTuple) else args[0].sort)
                    new = SV(SeqT(es), z3.Unit(coerce(args[0], es).t))
                else:
                    new = self.seq_append(st, recv, coerce(args[0], s.elem))
                self.store_back(fnode, new, st)
                return NONE_V
            if name == 'extend':
                other = self.as_seq(args[0], st)
                new = other if s.elem is None else SV(s, z3.Concat(recv.t, coerce(other, s).t))
                self.store_back(fnode, new, st)
                return NONE_V
            if name == 'insert':
                i = coerce(args[0], INT).t
                n = z3.Length(recv.t)
                j = z3.If(i < 0, z3.If(n + i < 0, 0, n + i), z3.If(i > n, n, i))
                new = SV(s, z3.Concat(z3.Extract(recv.t, 0, j), z3.Unit(coerce(args[1], s.elem).t), z3.Extract(recv.t, j, n - j)))
                self.store_back(fnode, new, st)
                return NONE_V
            if name == 'remove':
                x = coerce(args[0], s.elem)
                self.raise_if(st, z3.Not(self.seq_contains(recv, x)), 'ValueError', 'list.remove of a missing element')
                # the list without the first occurrence: same element-wise definition as the spec function seq_remove
                self.store_back(fnode, self.bi_seq_remove([recv, x], {}, st, node), st)
                return NONE_V
            if name == 'index':
                x = coerce(args[0], s.elem).t
                i = z3.IndexOf(recv.t, z3.Unit(x), 0)
                self.raise_if(st, i < 0, 'ValueError', 'list.index of a missing element')
                return SV(INT, i)
            if name == 'pop':
                n = z3.Length(recv.t)
                self.raise_if(st, n == 0, 'IndexError', 'pop from empty list')
                if args:
                    raise OutsideSubset('list.pop(i)')
                self.store_back(fnode, SV(s, z3.Extract(recv.t, 0, n - 1)), st)
                return SV(s.elem, nth(recv.t, n - 1))
        if isinstance(s, MapT):
            if name in ('keys', '__iter__'):
                return self.as_seq(recv, st)
            if name == 'values':
                if s.k is None:
                    return SV(SeqT(VAL), z3.Empty(z3.SeqSort(Val)))
                keys = self.as_seq(recv, st)
                r = fresh(SeqT(s.v), 'values')
                i = z3.Int(fresh_name('vi'))
                st.assume(z3.Length(r.t) == z3.Length(keys.t))
                st.assume(z3.ForAll([i], z3.Implies(z3.And(0 <= i, i < z3.Length(keys.t)), nth(r.t, i) == z3.Select(recv.c['val'], nth(keys.t, i)))))
                return r
            if name == 'items':
                if s.k is None:
                    return SV(SeqT(TupT(VAL, VAL)), z3.Empty(z3.SeqSort(TupT(VAL, VAL).z())))
                keys = self.as_seq(recv, st)
                ts = TupT(s.k, s.v)
                r = fresh(SeqT(ts), 'items')
                i = z3.Int(fresh_name('ii'))
                st.assume(z3.Length(r.t) == z3.Length(keys.t))
                st.assume(z3.ForAll([i], z3.Implies(z3.And(0 <= i, i < z3.Length(keys.t)),
                                                    nth(r.t, i) == ts.z().mk(nth(keys.t, i), z3.Select(recv.c['val'], nth(keys.t, i))))))
                return r
            if name == 'get':
                if s.k is None:
                    return args[1] if len(args) > 1 else NONE_V
                k = coerce(args[0], s.k)
                d = args[1] if len(args) > 1 else NONE_V
                return ite(z3.Select(recv.c['dom'], k.t), SV(s.v, z3.Select(recv.c['val'], k.t)), d)
            if name == 'pop':
                k = coerce(args[0], s.k)
                val = SV(s.v, z3.Select(recv.c['val'], k.t))
                if len(args) > 1:
                    raise OutsideSubset('dict.pop with default')
                new = self.map_delete(recv, args[0], st)
                self.store_back(fnode, new, st)
                self.assume_field_invariant(st, val)
                return val
        if isinstance(s, SetT):
            if name == 'add':
                if s.elem is None:
                    es = args[0].sort
                    base = z3.K(zsort(es), z3.BoolVal(False))
                    new = SV(SetT(es), z3.Store(base, args[0].t, z3.BoolVal(True)))
                else:
                    new = SV(s, z3.Store(recv.t, coerce(args[0], s.elem).t, z3.BoolVal(True)))
                self.store_back(fnode, new, st)
                return NONE_V
            if name == 'discard':
                self.store_back(fnode, SV(s, z3.Store(recv.t, coerce(args[0], s.elem).t, z3.BoolVal(False))), st)
                return NONE_V
        raise OutsideSubset('method %s of %s' % (name, s))

    def str_rfind(self, s, sub, lo, hi, st):
        """str.rfind(sub, lo, hi) for 0 <= lo <= hi <= len(s): highest index i in [lo, hi-len(sub)] with s[i:i+len(sub)] == sub, else -1"""
        r = z3.Int(fresh_name('rfind'))
        k = z3.Int(fresh_name('rk'))
        m = z3.Length(sub)
        occ = lambda i: z3.And(lo <= i, i + m <= hi, z3.SubString(s, i, m) == sub)
        st.assume(z3.Or(z3.And(r == -1, z3.ForAll([k], z3.Not(occ(k)))),
                        z3.And(occ(r), z3.ForAll([k], z3.Implies(occ(k), k <= r)))))
        return SV(INT, r)
