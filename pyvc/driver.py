"""Generate obligations for every contract of the given modules from the current source, discharge them in a process pool."""
import ast
import collections
import hashlib
import multiprocessing
import os
import subprocess
import tempfile
import time
import traceback

import z3

from .program import Program
from .state import Registry
from .engine import Exec
from .values import OutsideSubset, AT_AXIOMS

QUICK_TIMEOUT_MS = 20000
THOROUGH_TIMEOUT_MS = 60000
RETRY_FACTOR = 3          # undecided queries are re-run alone (few workers) with a longer budget before a verdict is given


def _solve(job):
    """z3 (in process) and cvc5 (subprocess) race on the same SMT-LIB text; the first definite answer wins."""
    name, idx, smt2, timeout_ms, use_cvc5 = job
    t0 = time.time()
    if os.environ.get('PYVC_DUMP'):
        with open(os.path.join(os.environ['PYVC_DUMP'], '%s.%d.smt2' % (name.replace('/', '_').replace(':', '_')[-120:], idx)), 'w') as f:
            f.write(smt2 + '\n(check-sat)\n')
    out = dict(name=name, idx=idx, status='unknown', backend='z3', model=None, solver_output='')
    proc, path, cvc5_answer = None, None, None
    if use_cvc5:
        try:
            with tempfile.NamedTemporaryFile('w', suffix='.smt2', delete=False) as f:
                f.write('(set-logic ALL)\n' + smt2 + '\n(check-sat)\n')
                path = f.name
            proc = subprocess.Popen(['/usr/bin/cvc5', '--strings-exp', '--tlimit=%d' % timeout_ms, path], stdout=subprocess.PIPE,
                                    stderr=subprocess.PIPE, text=True)
        except Exception as e:
            out['solver_output'] += 'cvc5 error: %s' % e
    try:
        ctx = z3.Context()
        s = z3.Solver(ctx=ctx)
        s.from_string(smt2)
        # short z3 slices so that a fast cvc5 answer is not held up by a z3 timeout
        deadline = time.time() + timeout_ms / 1000.0
        slice_ms = 1000
        while True:
            s.set('timeout', int(min(slice_ms, max(100, (deadline - time.time()) * 1000))))
            r = s.check()
            if r != z3.unknown or time.time() >= deadline:
                break
            if proc is not None and proc.poll() is not None:
                so, se = proc.communicate()
                ans = so.strip().split('\n')[0] if so.strip() else ''
                proc = None
                if ans in ('unsat', 'sat'):
                    cvc5_answer = ans
                    break
                out['solver_output'] += ' | cvc5: %s %s' % (ans, se.strip()[:200])
            slice_ms = min(slice_ms * 2, 8000)
        out['status'] = 'unsat' if r == z3.unsat else 'sat' if r == z3.sat else 'unknown'
        if out['status'] == 'unknown' and cvc5_answer:
            out['status'], out['backend'] = cvc5_answer, 'cvc5'
        if r == z3.sat:
            m = s.model()
            out['model'] = str(m)[:6000]
            vals = {}
            for d in m.decls():
                if d.name().startswith('arg_') and d.arity() == 0:
                    v = m[d]
                    if z3.is_int_value(v):
                        vals[d.name()] = v.as_long()
                    elif z3.is_string_value(v):
                        vals[d.name()] = v.as_string()
                    elif z3.is_true(v) or z3.is_false(v):
                        vals[d.name()] = z3.is_true(v)
            out['arg_values'] = vals
        elif r != z3.unsat:
            out['solver_output'] = 'z3: %s' % s.reason_unknown() + out['solver_output']
    except Exception as e:
        out['solver_output'] = 'z3 error: %s' % e
    if proc is not None:
        if out['status'] == 'unknown':
            try:
                so, se = proc.communicate(timeout=max(1.0, timeout_ms / 1000.0 - (time.time() - t0) + 3))
                ans = so.strip().split('\n')[0] if so.strip() else ''
                if ans in ('unsat', 'sat'):
                    out['status'] = ans
                    out['backend'] = 'cvc5'
                else:
                    out['solver_output'] += ' | cvc5: %s %s' % (ans, se.strip()[:200])
            except Exception as e:
                proc.kill()
                out['solver_output'] += ' | cvc5: %s' % type(e).__name__
        else:
            proc.kill()
            proc.communicate()
        try:
            os.unlink(path)
        except OSError:
            pass
    out['time_s'] = time.time() - t0
    return out


def _child(job, conn):
    try:
        conn.send(_solve(job))
    except Exception as e:          # pragma: no cover
        conn.send(dict(name=job[0], idx=job[1], status='unknown', backend='z3', model=None, solver_output='worker error: %r' % e, time_s=0.0))
    finally:
        conn.close()


def solve_all(jobs, workers):
    """one process per query, at most `workers` at a time, each killed when it overruns its budget (z3's own timeout is soft:
    the string solver can ignore it), so a check always terminates"""
    ctx = multiprocessing.get_context('fork')
    pending = list(jobs)
    running = []
    results = []
    while pending or running:
        while pending and len(running) < workers:
            job = pending.pop(0)
            parent, child = ctx.Pipe(duplex=False)
            p = ctx.Process(target=_child, args=(job, child))
            p.start()
            child.close()
            running.append((p, parent, job, time.time() + job[3] / 1000.0 * 1.3 + 10))
        still = []
        for p, conn, job, deadline in running:
            if conn.poll(0):
                try:
                    results.append(conn.recv())
                except EOFError:
                    results.append(dict(name=job[0], idx=job[1], status='unknown', backend='z3', model=None, solver_output='worker died', time_s=0.0))
                p.join(5)
                continue
            if not p.is_alive():
                results.append(dict(name=job[0], idx=job[1], status='unknown', backend='z3', model=None, solver_output='worker died', time_s=0.0))
                continue
            if time.time() > deadline:
                p.kill()
                p.join(5)
                subprocess.run(['pkill', '-P', str(p.pid)], capture_output=True)
                results.append(dict(name=job[0], idx=job[1], status='unknown', backend='z3', model=None,
                                    solver_output='killed after exceeding the budget of %d ms' % job[3], time_s=job[3] / 1000.0))
                continue
            still.append((p, conn, job, deadline))
        running = still
        if running:
            time.sleep(0.02)
    return results


def loop_headers(fn):
    """the loops of a function as text of their headers (iteration target and iterable, or the while test), in source order:
    a sidecar invariant is keyed to a loop; when the header is unchanged the invariant still describes that loop"""
    import ast as _ast
    loops = [n for n in _ast.walk(fn) if isinstance(n, (_ast.For, _ast.While))]
    loops.sort(key=lambda n: (n.lineno, n.col_offset))
    return ['for %s in %s' % (_ast.unparse(n.target), _ast.unparse(n.iter)) if isinstance(n, _ast.For) else 'while %s' % _ast.unparse(n.test)
            for n in loops]


def relevant_axioms(hyps, goal):
    """the element-access / membership link axioms are only needed where their function occurs (keeps simple queries
    quantifier-free, so that the solver can answer `sat` with a model instead of `unknown`)"""
    from .values import AT_AXIOM_NAMES
    text = ' '.join(h.sexpr() for h in hyps) + ' ' + goal.sexpr()
    need = set()
    changed = True
    while changed:
        changed = False
        for ax, name in zip(AT_AXIOMS, AT_AXIOM_NAMES):
            if id(ax) not in need and ('(%s ' % name) in text:
                need.add(id(ax))
                text += ' ' + ax.sexpr()
                changed = True
    return [ax for ax in AT_AXIOMS if id(ax) in need]


def to_smt2(hyps, goal):
    s = z3.Solver()
    for h in hyps:
        s.add(h)
    s.add(z3.Not(goal))
    return s.to_smt2().replace('(check-sat)', '')


def load_repo_classes(prog):
    """index every class of the repository (so that overriding definitions are seen whichever module a contract names)"""
    for pkg in ('xtuml', 'bridgepoint'):
        d = os.path.join(prog.repo, pkg)
        if not os.path.isdir(d):
            continue
        for f in sorted(os.listdir(d)):
            if f.endswith('.py') and not f.startswith('__'):
                try:
                    prog.load('%s.%s' % (pkg, f[:-3]))
                except (KeyError, SyntaxError):
                    pass


def overridden_by(reg, prog, qual):
    """A contract on Base.meth is a statement about every receiver that inherits it.  If a repository class K below Base now defines
    `meth` itself (or inherits another definition that comes before Base in its MRO) and that definition has no contract, the verified
    text is no longer the code that runs for K.  Returns (K, defining class, source hash of the overriding definition) or None."""
    parts = qual.split('@')[0].split('.')
    if len(parts) < 3 or parts[-2] not in prog.classes:
        return None
    base, meth = parts[-2], parts[-1]
    if prog.modules[prog.classes[base]['module']][0].startswith(prog.repo):
        # a method of a repository class still runs for receivers of that class when a subclass overrides it (ActionPrebuilder.accept_BodyNode
        # vs. BridgePrebuilder): the contract keeps describing running code.  The guard is for code the repository only *inherits*
        # (stdlib mixins): there the contract matters solely through the repository classes below it.
        return None
    for k, info in prog.classes.items():
        if k == base or not prog.modules[info['module']][0].startswith(prog.repo):
            continue
        mro = reg.mro(k)
        if base not in mro:
            continue
        for c in mro[:mro.index(base)]:
            ci = prog.classes.get(c)
            if ci and meth in ci['methods'] and not any(ct.qual.split('@')[0].endswith('.%s.%s' % (c, meth)) for ct in reg.contracts.values()):
                seg = ast.get_source_segment(prog.modules[ci['module']][2], ci['methods'][meth]) or ''
                return k, c, hashlib.sha1(seg.encode()).hexdigest()[:12]
    return None


def verify_modules(modnames, tier='quick', prop=None, only=None):
    prog = Program()
    reg = Registry(modnames, prog)
    load_repo_classes(prog)
    timeout = QUICK_TIMEOUT_MS if tier == 'quick' else THOROUGH_TIMEOUT_MS
    jobs, obl_meta, functions, errors, outside = [], {}, [], [], []
    outside_detail = []
    cover_jobs = []
    assumptions = list(reg.assumptions)
    for m in reg.top:
        for qual, ct in m.contracts.items():
            if only and qual not in only:
                continue
            if tier not in ct.tiers:
                continue
            if ct.trusted:
                assumptions.append('assumed contract (not verified): %s — %s' % (qual, ct.reason))
                continue
            t0 = time.time()
            if ct.kind != 'lemma':
                try:
                    prog.find(qual)
                    ov = overridden_by(reg, prog, qual)
                except KeyError:
                    ov = None
                if ov:
                    outside.append('%s: outside the verified subset: class %s runs %s.%s instead (a definition without contract that '
                                   'comes first in its method resolution order); the contract no longer describes the code that runs'
                                   % (qual, ov[0], ov[1], qual.split('@')[0].split('.')[-1]))
                    outside_detail.append((qual, ov[2]))
                    continue
            ex = Exec(reg, ct)
            try:
                obls = ex.run()
            except OutsideSubset as e:
                outside.append('%s: outside the verified subset: %s' % (qual, e))
                try:
                    outside_detail.append((qual, prog.source_hash(qual) if ct.kind != 'lemma' else None))
                except Exception:
                    outside_detail.append((qual, None))
                if os.environ.get('PYVC_TRACE'):
                    traceback.print_exc()
                continue
            except KeyError as e:
                # a construct the executor has no encoding for (e.g. an untyped empty container used as a value)
                outside.append('%s: outside the verified subset: no encoding (%s)' % (qual, e))
                try:
                    outside_detail.append((qual, prog.source_hash(qual) if ct.kind != 'lemma' else None))
                except Exception:
                    outside_detail.append((qual, None))
                if os.environ.get('PYVC_TRACE'):
                    traceback.print_exc()
                continue
            except Exception:
                errors.append('%s: engine error: %s' % (qual, traceback.format_exc()))
                continue
            if not obls:
                errors.append('%s: zero obligations generated' % qual)
                continue
            if ex.exits['normal'] + sum(v for k, v in ex.exits.items() if k.startswith('raise')) == 0:
                errors.append('%s: no path reaches an exit' % qual)
            functions.append(dict(function=qual, kind=ct.kind, paths=ex.paths, exits=dict(ex.exits), obligations=len(obls),
                                  source_sha1=prog.source_hash(qual) if ct.kind != 'lemma' else None,
                                  loops_with_invariant=sorted(ct.loops), loop_headers=loop_headers(ex.fn), gen_s=round(time.time() - t0, 3)))
            # vacuity: the precondition (with type invariants and axioms) must be satisfiable
            # ... and so must be at least one path to the normal exit and one path through every loop body
            seen = collections.Counter()
            for cname, hyps in ex.covers:
                seen[cname] += 1
                if seen[cname] > 3:
                    continue
                cover_jobs.append(('%s::cover[%s]' % (qual, cname), seen[cname], to_smt2(list(ex.hyp_axioms) + hyps, z3.BoolVal(False)), 5000, False))
            for name, o in obls.items():
                obl_meta[name] = dict(name=name, function=qual, kind=o.kind, clause=o.label, clause_text=o.clause_text,
                                      nqueries=len(o.queries), smt2_sample=None)
                for idx, (hyps, goal, where) in enumerate(o.queries):
                    if z3.is_true(goal):
                        continue
                    smt2 = to_smt2(list(ex.hyp_axioms) + relevant_axioms(list(ex.hyp_axioms) + hyps, goal) + hyps, goal)
                    if obl_meta[name]['smt2_sample'] is None:
                        obl_meta[name]['smt2_sample'] = smt2[-900:]
                    jobs.append((name, idx, smt2, timeout, True))
    results = {}
    covers = []
    if jobs or cover_jobs:
        all_jobs = jobs + cover_jobs
        first = []
        first = solve_all(all_jobs, min(10, len(all_jobs)))
        unknown = collections.Counter(r['name'] for r in first if r['status'] == 'unknown')
        # a retry is for the odd query that ran out of budget under load, not for an obligation that fails on many paths
        retry = [(n, i, smt, t * RETRY_FACTOR, c) for (n, i, smt, t, c) in jobs
                 if unknown.get(n, 0) <= 2 and any(r['name'] == n and r['idx'] == i and r['status'] == 'unknown' for r in first)]
        if retry:
            keep = [r for r in first if not any(r['name'] == j[0] and r['idx'] == j[1] for j in retry)]
            second = solve_all(retry, min(4, len(retry)))
            for r in second:
                r['solver_output'] = 'after retry with %d ms: %s' % (retry[0][3], r['solver_output'])
            first = keep + second
        if True:
            cov = collections.defaultdict(list)
            vacuous = []
            for r in first:
                if '::cover[' in r['name']:
                    cov[r['name']].append(r['status'])
                    continue
                results.setdefault(r['name'], []).append(r)
            for cname, sts in cov.items():
                # a cover asks for satisfiability: `unsat` on every sampled path means the hypotheses exclude every input (vacuous proof)
                vac = all(x == 'unsat' for x in sts)
                covers.append(dict(name=cname, status='VACUOUS' if vac else 'satisfiable' if 'sat' in sts else 'not refuted (solver: unknown)'))
                if vac:
                    vacuous.append(cname)
    obligations = []
    for name, meta in obl_meta.items():
        rs = results.get(name, [])
        st = 'discharged'
        model, so, backends, t = None, '', set(['trivial'] if not rs else []), 0.0
        for r in rs:
            t += r['time_s']
            backends.add(r['backend'])
            if r['status'] == 'sat':
                st, model = 'sat', r['model']
                meta['arg_values'] = r.get('arg_values')
            elif r['status'] != 'unsat' and st != 'sat':
                st, so = 'unknown', r['solver_output']
        if st == 'sat' and meta.get('arg_values') is not None:
            ct = reg.contracts.get(meta['function'])
            from . import native
            if ct is not None and native.primitive_params(ct):
                try:
                    rp = native.replay(ct, meta['kind'], meta['clause'], native.model_args(ct, meta['arg_values']))
                    meta['native'] = rp
                    if rp.get('reproduced'):
                        meta['replay'] = dict(kind='native-call', function=ct.qual, args=rp['input'], clause_kind=meta['kind'], clause=meta['clause'],
                                              clause_text=rp['required'], observed=rp['observed'])
                except Exception as e:
                    meta['native'] = dict(error=repr(e))
        meta.update(status=st, model=model, solver_output=so, backend='+'.join(sorted(backends)), time_s=t,
                    per_query=sorted((r['idx'], r['status'], round(r['time_s'], 2)) for r in rs))
        obligations.append(meta)
    for cname in (vacuous if (jobs or cover_jobs) else []):
        # only a function that would otherwise count as proved is an error: when an obligation of it has failed already (e.g. the
        # invariant does not hold initially) the contradiction is that failure seen from the inside
        fn = cname.split('::cover[')[0]
        if all(o['status'] == 'discharged' for o in obligations if o['function'] == fn):
            errors.append('%s: hypotheses unsatisfiable on every path, the proof would be vacuous' % cname)
    return dict(outside_detail=outside_detail, obligations=obligations, functions=functions, errors=errors, outside_subset=outside, assumptions=assumptions,
                covers=sorted(covers, key=lambda c: c['name']))


def groups_of(mods):
    """a property's `pyvc` list: plain module names share one registry (the first group); a nested list is a group of its own,
    verified in a separate registry (for contract modules that type a heap field differently, e.g. Stmt.attributes)"""
    first = [m for m in mods if isinstance(m, str)]
    return ([first] if first else []) + [list(m) for m in mods if not isinstance(m, str)]


def verify_groups(mods, tier='quick', prop=None, only=None):
    out = None
    for g in groups_of(mods):
        r = verify_modules(g, tier=tier, prop=prop, only=only)
        if out is None:
            out = r
            continue
        for k in ('outside_detail', 'obligations', 'functions', 'errors', 'outside_subset', 'covers'):
            out[k] = list(out[k]) + list(r[k])
        out['assumptions'] = list(out['assumptions']) + [a for a in r['assumptions'] if a not in out['assumptions']]
    return out or dict(outside_detail=[], obligations=[], functions=[], errors=[], outside_subset=[], assumptions=[], covers=[])


def replay(spec, rec):
    """re-execute a recorded native-call counterexample on the current tree"""
    from . import native
    inp = rec['input']
    if inp.get('kind') != 'native-call':
        return []
    prog = Program()
    ct = None
    for g in groups_of(spec['pyvc']):
        reg = Registry(g, prog)
        if inp['function'] in reg.contracts:
            ct = reg.contracts[inp['function']]
            break
    rp = native.replay(ct, inp['clause_kind'], inp['clause'], inp['args'])
    if rp.get('reproduced'):
        return [dict(clause=inp['clause'], observed=rp['observed'], required=rp['required'])]
    return []
