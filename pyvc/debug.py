"""python -m pyvc.debug contracts.c19 [qual ...]  — per-obligation verdicts, times, models"""
import sys
from vlib import fresh_ply  # noqa
from . import driver

def main():
    mods = [sys.argv[1]]
    only = sys.argv[2:] or None
    r = driver.verify_modules(mods, only=only)
    for f in r['functions']:
        print('FUNC', f['function'], 'paths', f['paths'], 'exits', f['exits'], 'obl', f['obligations'], 'gen', f['gen_s'])
    for o in r['obligations']:
        print('%-8s %6.2fs %-10s %s  (%d q)' % (o['status'], o['time_s'], o['backend'], o['name'], o['nqueries']))
        if o['status'] != 'discharged':
            print('     clause:', o['clause_text'])
            print('     per query:', o.get('per_query'))
            print('     ', (o['model'] or o['solver_output'] or '')[:1500].replace('\n', '\n      '))
    for e in r['errors'] + r['outside_subset']:
        print('ERR', e)

main()
