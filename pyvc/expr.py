"""Expression evaluation (code and spec mode)."""
import ast

import z3

from .sorts import (PyTypeOf, PyNav, PyDict, PyProperty, ArrT, SV, PyVal, PyTuple, Closure, BoundMethod, ModuleRef, ClassRef, SpecFn, INT, BOOL, STR, REAL, VAL, NONE,
                    NONE_V, RefT, SeqT, SetT, MapT, TupT, Val, Ref, null, zsort, fresh, mk_bool, mk_int, mk_str, fresh_name)
from .values import (mem, nth, OutsideSubset, coerce, box, unbox, py_eq, truthy, ite, tup_items, empty_map, join_sort, is_ref,
                     int_to_str, default_term)
from .state import PyRaise

BUILTIN_NAMES = set('len list tuple set frozenset dict zip enumerate reversed range isinstance issubclass next iter filter sorted '
                    'getattr setattr hasattr delattr str int float bool min max sum abs repr type print property object '
                    'all any map'.split())
SPEC_NAMES = set('old result implies fresh unchanged seq_remove seq_index ite map_keys is_int is_str is_none is_bool is_real '
                 'upper lower class_defaults int_str every refs anyref ints strs vals arr_set arr_dec_above seq_without seq_take '
                 'seq_drop allocated map_set map_del same as_str as_int int_literal float float_literal is_digits join world is_ref as_ref'.split())
EXC_NAMES = set('Exception KeyError IndexError ValueError TypeError AttributeError StopIteration ZeroDivisionError AssertionError '
                'RuntimeError NotImplementedError LookupError ArithmeticError BaseException'.split())


class ExprMixin(object):

    def ev(self, node, st):
        m = getattr(self, 'ev_' + type(node).__name__, None)
        if m is None:
            raise OutsideSubset('expression %s' % type(node).__name__)
        return m(node, st)

    # ---------------------------------------------------------------- atoms
    def ev_Constant(self, node, st):
        v = node.value
        if v is None:
            return NONE_V
        if isinstance(v, bool):
            return mk_bool(v)
        if isinstance(v, int):
            return mk_int(v)
        if isinstance(v, str):
            return mk_str(v)
        if isinstance(v, float):
            return SV(REAL, z3.RealVal(repr(v)))
        raise OutsideSubset('constant %r' % (v,))

    def ev_Name(self, node, st):
        n = node.id
        if n in st.env:
            return st.env[n]
        if n == '_yielded' and st.yielded is not None:
            return st.yielded
        if self.spec_mode and n in getattr(self, 'roles', {}) and self.roles[n] in st.env:
            return st.env[self.roles[n]]          # role names (_w0, _returned, ...): the local playing that role, whatever it is called
        return self.global_name(n, st)

    def global_name(self, n, st):
        if n in self.reg.specfns or n in self.reg.uninterp:
            return SpecFn(n)
        if n == 'object' and not self.spec_mode:
            return ClassRef('object')
        if n == '__file__' and not self.spec_mode:
            return SV(STR, z3.String('module__file__'))   # the path of the module: an opaque string
        if n in BUILTIN_NAMES or (self.spec_mode and n in SPEC_NAMES):
            return SpecFn('builtin:' + n)
        if n in EXC_NAMES:
            return ClassRef(n)
        if n in self.prog.classes or n in self.reg.classes:
            return ClassRef(n)
        if n in ('xtuml', 'bridgepoint', 'uuid', 'collections', 're', 'logging', 'sys', 'os', 'functools', 'logger'):
            return ModuleRef(n)
        path, tree, src = self.prog.load(self.cur_module) if self.cur_module and not self.cur_module.startswith('contracts') else (None, None, None)
        if tree is not None:
            for t in tree.body:
                if isinstance(t, ast.FunctionDef) and t.name == n:
                    return SpecFn('func:' + n)
                if isinstance(t, (ast.Import, ast.ImportFrom)):
                    for a in t.names:
                        if (a.asname or a.name.split('.')[0]) == n:
                            if isinstance(t, ast.ImportFrom):
                                if t.module in ('ply',):       # `from ply import lex, yacc`: the name is a module
                                    return ModuleRef('%s.%s' % (t.module, a.name))
                                return SpecFn('func:' + a.name) if not a.name[:1].isupper() else ClassRef(a.name)
                            return ModuleRef(a.name)
                if isinstance(t, ast.Assign) and len(t.targets) == 1 and isinstance(t.targets[0], ast.Name) and t.targets[0].id == n:
                    if isinstance(t.value, ast.Constant):
                        return self.ev_Constant(t.value, st)
                    if isinstance(t.value, ast.Name):      # alias such as BaseObject = Class
                        return self.global_name(t.value.id, st)
        if self.reg.function(n) is not None:
            return SpecFn('func:' + n)
        raise OutsideSubset('unknown name %s' % n)

    def ev_Tuple(self, node, st):
        return PyTuple([self.ev(e, st) for e in node.elts])

    def ev_List(self, node, st):
        items = [self.ev(e, st) for e in node.elts]
        hint = self.literal_hint(node)
        if hint is not None and not self.spec_mode:
            return self.alloc_record(st, hint, items)
        if not items:
            return SV(SeqT(None), {})
        es = items[0].sort
        for i in items[1:]:
            es = join_sort(es, i.sort)
        if isinstance(es, TupT) or any(isinstance(i, PyTuple) for i in items):
            es = items[0].sort
        zs = zsort(es)
        t = z3.Empty(z3.SeqSort(zs))
        for i in items:
            t = z3.Concat(t, z3.Unit(coerce(i, es).t)) if not z3.is_app_of(t, z3.Z3_OP_SEQ_EMPTY) else z3.Unit(coerce(i, es).t)
        return SV(SeqT(es), t)

    def literal_hint(self, node):
        """list literals that the sidecar declares to be heap records (the [key, prev, next] cells of OrderedSet)"""
        h = self.ct.ghost.get('list_literal_class')
        return h

    def alloc_record(self, st, cls, items):
        r = self.allocate(st, cls)
        self.record_len[r.t.sexpr()] = len(items)
        for i, v in enumerate(items):
            key = self.reg.field_key(cls, '[%d]' % i)
            self.heap_set(st, key, r.t, v)
        return r

    def ev_Dict(self, node, st):
        if node.keys:
            if all(isinstance(k, ast.Constant) and isinstance(k.value, str) for k in node.keys):
                return PyDict((k.value, self.ev(v, st)) for k, v in zip(node.keys, node.values))
            raise OutsideSubset('dict literal with computed keys')
        return SV(MapT(None, None), {})

    def ev_Lambda(self, node, st):
        return Closure(node, dict(st.env), None)

    def ev_IfExp(self, node, st):
        c = self.ev_truth(node.test, st)
        d = self.decided(st, c)
        if d is True:
            return self.ev(node.body, st)
        if d is False:
            return self.ev(node.orelse, st)
        if self.is_pure(node.body) and self.is_pure(node.orelse):
            return ite(c, self.ev(node.body, st), self.ev(node.orelse, st))
        if self.choose_bool(st, c):
            return self.ev(node.body, st)
        return self.ev(node.orelse, st)

    def decided(self, st, c):
        """True/False when the path condition syntactically fixes the (closed) condition c, else None"""
        c = z3.simplify(c)
        if z3.is_true(c):
            return True
        if z3.is_false(c):
            return False
        nc = z3.simplify(z3.Not(c))
        for p in st.pc:
            ps = z3.simplify(p)
            if ps.eq(c):
                return True
            if ps.eq(nc):
                return False
        return None

    def is_pure(self, node):
        """no call that may raise or modify (conservative: calls to spec functions/builtins only)"""
        for n in ast.walk(node):
            if isinstance(n, ast.Call):
                f = n.func
                if self.spec_mode:
                    continue
                if isinstance(f, ast.Name) and (f.id in ('len', 'isinstance', 'bool', 'str') or f.id in self.reg.specfns):
                    continue
                if isinstance(f, ast.Attribute) and f.attr in ('upper', 'lower'):
                    continue
                return False
            if isinstance(n, (ast.Subscript,)) and not self.spec_mode:
                return False
            if isinstance(n, (ast.Yield, ast.Await, ast.NamedExpr)):
                return False
        return True

    # ---------------------------------------------------------------- operators
    def ev_truth(self, node, st):
        """truth value of an expression in a boolean context (if/while/not/assert): and/or/not combine operand truths, with
        short-circuit forks where a later operand has effects or may raise"""
        if isinstance(node, ast.BoolOp):
            is_and = isinstance(node.op, ast.And)
            if self.spec_mode or all(self.is_pure(v) for v in node.values[1:]):
                ts = [self.ev_truth(v, st) for v in node.values]
                return z3.And(ts) if is_and else z3.Or(ts)
            acc = self.ev_truth(node.values[0], st)
            for v in node.values[1:]:
                go_on = self.choose_bool(st, acc) if is_and else not self.choose_bool(st, acc)
                if not go_on:
                    return z3.BoolVal(not is_and)
                acc = self.ev_truth(v, st)
            return acc
        if isinstance(node, ast.UnaryOp) and isinstance(node.op, ast.Not):
            return z3.Not(self.ev_truth(node.operand, st))
        return self.truth(st, self.ev(node, st))

    def ev_BoolOp(self, node, st):
        is_and = isinstance(node.op, ast.And)
        vals = node.values
        if self.spec_mode or all(self.is_pure(v) for v in vals[1:]):
            # value semantics of and/or only matter when the operands are not booleans; the repo uses them as booleans or in tests
            svs = [self.ev(v, st) for v in vals]
            if all(getattr(s, 'sort', None) == BOOL for s in svs):
                return mk_bool(z3.And([s.t for s in svs]) if is_and else z3.Or([s.t for s in svs]))
            for s in svs:
                if is_ref(getattr(s, 'sort', None)) and self.reg.class_info(s.sort.cls, 'len') is not None:
                    raise OutsideSubset('value of and/or over a sized object outside a boolean context')
            res = svs[-1]
            for s in reversed(svs[:-1]):
                c = self.truth(st, s)
                res = ite(c, res, s) if is_and else ite(c, s, res)
            return res
        res = self.ev(vals[0], st)
        for v in vals[1:]:
            c = self.truth(st, res)
            take_next = self.choose_bool(st, c) if is_and else not self.choose_bool(st, c)
            if not take_next:
                return res
            res = self.ev(v, st)
        return res

    def ev_UnaryOp(self, node, st):
        if isinstance(node.op, ast.Not):
            return mk_bool(z3.Not(self.ev_truth(node.operand, st)))
        v = self.ev(node.operand, st)
        if isinstance(node.op, ast.UAdd) and not isinstance(v, PyVal) and v.sort in (INT, REAL, VAL):
            return v if v.sort != VAL else SV(VAL, Val.VInt(unbox(v, INT).t))
        if isinstance(node.op, ast.USub):
            if v.sort == INT:
                return SV(INT, -v.t)
            if v.sort == REAL:
                return SV(REAL, -v.t)
            if v.sort == VAL:
                return SV(VAL, Val.VInt(-unbox(v, INT).t))
        raise OutsideSubset('unary %s on %s' % (type(node.op).__name__, v.sort))

    def ev_BinOp(self, node, st):
        op = node.op
        if isinstance(op, ast.Mod) and isinstance(node.left, ast.Constant) and isinstance(node.left.value, str):
            return self.format_percent(node.left.value, self.ev(node.right, st), st)
        l, r = self.ev(node.left, st), self.ev(node.right, st)
        return self.binop(op, l, r, st)

    def binop(self, op, l, r, st):
        if isinstance(l, PyVal) or isinstance(r, PyVal):
            if isinstance(l, PyTuple) and isinstance(r, PyTuple) and isinstance(op, ast.Add):
                return PyTuple(l.items + r.items)
            raise OutsideSubset('operator on verification-time value')
        ls, rs = l.sort, r.sort
        if isinstance(op, ast.Add) and ls == STR and rs == STR:
            return SV(STR, z3.Concat(l.t, r.t))
        if isinstance(op, ast.Add) and isinstance(ls, SeqT) and isinstance(rs, SeqT):
            if ls.elem is None:
                return r
            if rs.elem is None:
                return l
            rt = coerce(r, ls).t
            if z3.is_app_of(rt, z3.Z3_OP_SEQ_UNIT):
                return self.seq_append(st, l, SV(ls.elem, rt.arg(0)))
            return SV(ls, z3.Concat(l.t, rt))
        if isinstance(op, (ast.BitOr, ast.BitAnd, ast.Sub, ast.BitXor)) and isinstance(ls, SetT) and isinstance(rs, SetT):
            if ls.elem is None and rs.elem is None:
                return l
            es = rs if ls.elem is None else ls
            a, b = coerce(l, es).t, coerce(r, es).t
            x = z3.Const(fresh_name('x'), zsort(es.elem))
            f = {ast.BitOr: z3.Or(a[x], b[x]), ast.BitAnd: z3.And(a[x], b[x]), ast.Sub: z3.And(a[x], z3.Not(b[x])),
                 ast.BitXor: z3.Xor(a[x], b[x])}[type(op)]
            return SV(es, z3.Lambda([x], f))
        if isinstance(op, (ast.BitOr,)) and ls == BOOL and rs == BOOL:
            return mk_bool(z3.Or(l.t, r.t))
        if isinstance(op, (ast.BitAnd,)) and ls == BOOL and rs == BOOL:
            return mk_bool(z3.And(l.t, r.t))
        if ls == VAL or rs == VAL:
            if isinstance(op, (ast.Add, ast.Sub, ast.Mult)):
                a, b = coerce(l, INT).t, coerce(r, INT).t
                return SV(VAL, Val.VInt({ast.Add: a + b, ast.Sub: a - b, ast.Mult: a * b}[type(op)]))
            if isinstance(op, (ast.Div, ast.Mod, ast.FloorDiv)):
                f = z3.Function('val_%s' % type(op).__name__.lower(), Val, Val, Val)     # not modelled: an abstract value
                return SV(VAL, f(box(l).t, box(r).t))
            raise OutsideSubset('operator %s on Val' % type(op).__name__)
        nums = (INT, BOOL)
        if ls in nums and rs in nums:
            a, b = coerce(l, INT).t, coerce(r, INT).t
            if isinstance(op, ast.Add):
                return SV(INT, a + b)
            if isinstance(op, ast.Sub):
                return SV(INT, a - b)
            if isinstance(op, ast.Mult):
                return SV(INT, a * b)
            if isinstance(op, ast.FloorDiv):
                if not self.spec_mode:
                    self.raise_if(st, b == 0, 'ZeroDivisionError', 'floor division')
                return SV(INT, z3.If(b > 0, a / b, (-a) / (-b)))
            if isinstance(op, ast.Mod):
                if not self.spec_mode:
                    self.raise_if(st, b == 0, 'ZeroDivisionError', 'modulo')
                return SV(INT, a - b * z3.If(b > 0, a / b, (-a) / (-b)))
        if ls in (INT, REAL, BOOL) and rs in (INT, REAL, BOOL):
            a, b = coerce(coerce(l, INT) if ls == BOOL else l, REAL).t, coerce(coerce(r, INT) if rs == BOOL else r, REAL).t
            if isinstance(op, ast.Add):
                return SV(REAL, a + b)
            if isinstance(op, ast.Sub):
                return SV(REAL, a - b)
            if isinstance(op, ast.Mult):
                return SV(REAL, a * b)
            if isinstance(op, ast.Div):
                if not self.spec_mode:
                    self.raise_if(st, b == 0, 'ZeroDivisionError', 'division')
                return SV(REAL, a / b)
        raise OutsideSubset('operator %s on %s, %s' % (type(op).__name__, ls, rs))

    def raise_if(self, st, cond, exc, origin):
        """fork: on the raising branch a PyRaise propagates"""
        c = z3.simplify(cond)
        if z3.is_false(c):
            return
        if not z3.is_true(c) and not self.feasible(st, cond):
            return
        if self.choose_bool(st, cond):
            raise PyRaise(exc, st, origin)

    def feasible(self, st, cond):
        """cheap pruning of exception branches that the path condition already excludes (unknown counts as feasible)"""
        s = z3.Solver()
        s.set('timeout', 300)
        s.set('rlimit', 3000000)
        for f in st.pc:
            if not self.has_recfun(f):
                s.add(f)
        if not self.has_recfun(cond):
            s.add(cond)
        return s.check() != z3.unsat

    def format_percent(self, fmt, arg, st):
        args = arg.items if isinstance(arg, PyTuple) else [arg]
        parts, i, k = [], 0, 0
        while i < len(fmt):
            j = fmt.find('%', i)
            if j < 0:
                parts.append(z3.StringVal(fmt[i:]))
                break
            if j > i:
                parts.append(z3.StringVal(fmt[i:j]))
            spec = fmt[j + 1:j + 2]
            if spec == '%':
                parts.append(z3.StringVal('%'))
            elif spec == 'f':
                if k >= len(args):
                    raise OutsideSubset('format arity')
                a = args[k]
                k += 1
                parts.append(z3.Function('format_f', z3.RealSort(), z3.StringSort())(coerce(coerce(a, INT) if a.sort == BOOL else a, REAL).t if a.sort != VAL else unbox(a, REAL).t))
            elif spec in 'ds':
                if k >= len(args):
                    raise OutsideSubset('format arity')
                a = args[k]
                k += 1
                parts.append(self.to_str(a, st, spec))
            else:
                raise OutsideSubset('format spec %%%s' % spec)
            i = j + 2
        if k != len(args):
            raise OutsideSubset('format arity')
        if not parts:
            return mk_str('')
        return SV(STR, z3.Concat(*parts) if len(parts) > 1 else parts[0])

    def to_str(self, a, st, spec='s'):
        if isinstance(a, PyVal):
            raise OutsideSubset('str() of verification-time value')
        if a.sort == STR:
            return a.t
        if a.sort == INT:
            return int_to_str(a.t)
        if a.sort == BOOL:
            return z3.If(a.t, z3.StringVal('1'), z3.StringVal('0')) if spec == 'd' else z3.If(a.t, z3.StringVal('True'), z3.StringVal('False'))
        if a.sort == VAL:
            t = a.t
            if spec == 'd':
                return int_to_str(unbox(a, INT).t)
            opaque = z3.Function('str_of_val', Val, z3.StringSort())
            return z3.If(Val.is_VStr(t), Val.sval(t), z3.If(Val.is_VInt(t), int_to_str(Val.ival(t)), opaque(t)))
        if is_ref(a.sort):
            text = self.reg.class_info(a.sort.cls, 'str') if a.sort.cls else None
            if text is not None:
                return self.spec_eval(text, st, {'self': a}).t
            return z3.Function('str_of_ref', Ref, z3.StringSort())(a.t)
        raise OutsideSubset('str() of %s' % a.sort)

    def ev_Compare(self, node, st):
        left = self.ev(node.left, st)
        conj = []
        for op, rn in zip(node.ops, node.comparators):
            if isinstance(op, (ast.In, ast.NotIn)) and isinstance(rn, ast.Call) and isinstance(rn.func, ast.Name) and rn.func.id == 'range' \
                    and len(rn.args) in (1, 2) and not isinstance(left, PyVal):
                bounds = [self.ev(a, st).t for a in rn.args]
                lo, hi = (z3.IntVal(0), bounds[0]) if len(bounds) == 1 else bounds
                if left.sort == VAL:
                    inr = z3.And(Val.is_VInt(left.t), lo <= Val.ival(left.t), Val.ival(left.t) < hi)
                else:
                    x = coerce(left, INT).t
                    inr = z3.And(lo <= x, x < hi)
                conj.append(inr if isinstance(op, ast.In) else z3.Not(inr))
                continue
            if isinstance(op, (ast.In, ast.NotIn)) and isinstance(rn, (ast.List, ast.Tuple, ast.Set)):
                right = PyTuple([self.ev(e, st) for e in rn.elts])       # membership in a literal: element-wise ==
            else:
                right = self.ev(rn, st)
            conj.append(self.compare(op, left, right, st))
            left = right
        return mk_bool(z3.And(conj) if len(conj) > 1 else conj[0])

    def compare(self, op, l, r, st):
        if isinstance(op, (ast.Eq, ast.Is)):
            return py_eq(l, r)
        if isinstance(op, (ast.NotEq, ast.IsNot)):
            return z3.Not(py_eq(l, r))
        if isinstance(op, (ast.In, ast.NotIn)):
            c = self.contains(r, l, st)
            return c if isinstance(op, ast.In) else z3.Not(c)
        if isinstance(l, PyVal) or isinstance(r, PyVal):
            raise OutsideSubset('ordering of verification-time values')
        if l.sort == VAL or r.sort == VAL:
            a, b = coerce(l, INT).t, coerce(r, INT).t
        elif l.sort in (INT, BOOL) and r.sort in (INT, BOOL):
            a, b = coerce(l, INT).t, coerce(r, INT).t
        elif l.sort in (INT, REAL, BOOL) and r.sort in (INT, REAL, BOOL):
            a, b = coerce(coerce(l, INT) if l.sort == BOOL else l, REAL).t, coerce(coerce(r, INT) if r.sort == BOOL else r, REAL).t
        elif l.sort == STR and r.sort == STR:
            return {ast.Lt: l.t < r.t, ast.LtE: l.t <= r.t, ast.Gt: r.t < l.t, ast.GtE: r.t <= l.t}[type(op)]
        else:
            raise OutsideSubset('ordering of %s and %s' % (l.sort, r.sort))
        return {ast.Lt: a < b, ast.LtE: a <= b, ast.Gt: a > b, ast.GtE: a >= b}[type(op)]

    def contains(self, cont, x, st):
        if isinstance(cont, PyTuple):
            return z3.Or([py_eq(x, i) for i in cont.items]) if cont.items else z3.BoolVal(False)
        if isinstance(cont, PyVal):
            raise OutsideSubset('membership in %s' % type(cont).__name__)
        s = cont.sort
        if isinstance(s, SeqT):
            if s.elem is None:
                return z3.BoolVal(False)
            return self.seq_contains(cont, x)
        if isinstance(s, SetT):
            if s.elem is None:
                return z3.BoolVal(False)
            return z3.Select(cont.t, coerce(x, s.elem).t)
        if isinstance(s, MapT):
            if s.k is None:
                return z3.BoolVal(False)
            return z3.Select(cont.c['dom'], coerce(x, s.k).t)
        if s == STR:
            return z3.Contains(cont.t, coerce(x, STR).t)
        if is_ref(s) and self.reg.class_info(s.cls, 'dictfield'):
            return self.contains(self.dict_of(st, cont), x, st)
        if is_ref(s):
            text = self.reg.class_info(s.cls, 'contains')
            if text is not None:
                return self.truth(st, self.spec_eval(text, st, {'self': cont, 'x': x}))
            m = self.reg.method(s.cls, '__contains__')
            if m is not None:
                return self.truth(st, self.call_contract(m, [cont, x], {}, st))
        raise OutsideSubset('membership in %s' % s)

    def dict_of(self, st, ref):
        """objects of dict subclasses (Link): the dict itself is the pseudo field named by the class fact `dictfield`"""
        key = self.reg.field_key(ref.sort.cls, self.reg.class_info(ref.sort.cls, 'dictfield'))
        return self.heap_get(st, key, ref.t)

    def dict_store(self, st, ref, m):
        key = self.reg.field_key(ref.sort.cls, self.reg.class_info(ref.sort.cls, 'dictfield'))
        self.heap_set(st, key, ref.t, m)

    def seq_append(self, st, a, x):
        """a + [x] as a named sequence with its element-wise definition (triggers on r[i] let quantified invariants about `a` fire)"""
        if getattr(self, '_defining_rec', False):
            return SV(a.sort, z3.Concat(a.t, z3.Unit(x.t)))      # inside a recursive definition: the plain term, no side facts
        r = fresh(a.sort, 'app')
        i = z3.Int(fresh_name('ai'))
        n = z3.Length(a.t)
        st.assume(r.t == z3.Concat(a.t, z3.Unit(x.t)))
        st.assume(z3.Length(r.t) == n + 1)
        st.assume(nth(r.t, n) == x.t)
        st.assume(z3.ForAll([i], z3.Implies(z3.And(0 <= i, i < n), nth(r.t, i) == nth(a.t, i)), patterns=[nth(r.t, i)]))
        if a.sort.elem != VAL and not isinstance(a.sort.elem, TupT):
            v = z3.Const(fresh_name('av'), zsort(a.sort.elem))
            st.assume(z3.ForAll([v], mem(r.t, v) == z3.Or(mem(a.t, v), v == x.t), patterns=[mem(r.t, v)]))
        return r

    def seq_remove_at(self, st, a, p):
        """a without position p, as a named sequence with its element-wise definition"""
        r = fresh(a.sort, 'rem')
        i = z3.Int(fresh_name('ri'))
        n = z3.Length(a.t)
        st.assume(z3.Implies(z3.And(0 <= p, p < n),
                             z3.And(r.t == z3.Concat(z3.Extract(a.t, 0, p), z3.Extract(a.t, p + 1, n - p - 1)), z3.Length(r.t) == n - 1)))
        st.assume(z3.ForAll([i], z3.Implies(z3.And(0 <= i, i < n - 1, 0 <= p, p < n), nth(r.t, i) == z3.If(i < p, nth(a.t, i), nth(a.t, i + 1))), patterns=[nth(r.t, i)]))
        return r

    def seq_contains(self, cont, x):
        """x in seq as an index quantifier (the sequence solver's native `contains` does not combine with quantified invariants)"""
        n = z3.simplify(z3.Length(cont.t))
        if z3.is_int_value(n) and n.as_long() <= 6:
            return z3.Or([py_eq(SV(cont.sort.elem, z3.simplify(nth(cont.t, k))), x) for k in range(n.as_long())]) if n.as_long() else z3.BoolVal(False)
        if cont.sort.elem != VAL and not isinstance(cont.sort.elem, TupT):
            return mem(cont.t, coerce(x, cont.sort.elem).t)
        i = z3.Int(fresh_name('ci'))
        el = SV(cont.sort.elem, nth(cont.t, i))
        return z3.Exists([i], z3.And(0 <= i, i < z3.Length(cont.t), py_eq(el, x)))

    # ---------------------------------------------------------------- attribute / subscript
    def ev_Attribute(self, node, st):
        base = self.ev(node.value, st)
        return self.getattr_(base, node.attr, st, node)

    def getattr_(self, base, attr, st, node=None):
        if isinstance(base, ModuleRef):
            return self.module_attr(base, attr, st)
        if isinstance(base, ClassRef):
            ci = self.prog.classes.get(base.name)
            if (ci and attr in ci['methods']) or self.reg.method(base.name, attr) is not None:
                return BoundMethod(base, attr)
            if ci and attr in ci['attrs'] and isinstance(ci['attrs'][attr], ast.Constant):
                return self.ev_Constant(ci['attrs'][attr], st)
            raise OutsideSubset('class attribute %s.%s' % (base.name, attr))
        if isinstance(base, PyNav):
            if attr == 'nav':
                return BoundMethod(base, 'nav')
            return PyNav(base.kind, base.handle, base.chain, attr)
        if isinstance(base, PyProperty) and attr in ('fget', 'fset'):
            f = getattr(base, attr)
            if f is None:
                raise OutsideSubset('property without %s' % attr)
            return f
        if isinstance(base, PyTypeOf):
            if attr == '__name__' and 'kind_of' in self.reg.uninterp:
                # the class of a model instance is named by the key letters of its metaclass: the abstract kind_of
                kf = z3.Function('u_kind_of', Ref, z3.StringSort())
                return SV(STR, kf(coerce(base.obj, RefT('Class')).t))
            raise OutsideSubset('attribute %s of a type object' % attr)
        if isinstance(base, PyDict) and attr in ('items', 'keys', 'values'):
            return BoundMethod(base, attr)
        if isinstance(base, PyVal):
            raise OutsideSubset('attribute %s of %s' % (attr, type(base).__name__))
        s = base.sort
        if is_ref(s):
            if s.cls is None:
                raise OutsideSubset('attribute %s of untyped reference' % attr)
            key = self.reg.field_key(s.cls, attr)
            if key is not None:
                v = self.heap_get(st, key, base.t)
                self.assume_field_invariant(st, v)
                return v
            pc = self.reg.method(s.cls, attr)
            if pc is not None and pc.kind == 'property':
                return self.call_contract(pc, [base], {}, st)
            if self.reg.class_info(s.cls, 'instance_attrs') and pc is None:
                f = z3.Function('u_attr_value', Ref, z3.StringSort(), Val)
                return SV(VAL, f(base.t, z3.StringVal(attr.upper())))
            return BoundMethod(base, attr)
        if s in (STR,) or isinstance(s, (SeqT, MapT, SetT)) or s == VAL:
            return BoundMethod(base, attr)
        raise OutsideSubset('attribute %s of %s' % (attr, s))

    def assume_field_invariant(self, st, v):
        if isinstance(v, PyVal) or self.spec_mode:
            return
        if is_ref(v.sort):
            st.assume(z3.Or(v.t == null, self.allocated(st, v.t)))
            if v.sort.cls is not None:
                st.assume(z3.Or(v.t == null, self.isinstance_term(v.t, v.sort.cls)))

    def module_attr(self, base, attr, st):
        if attr in self.prog.classes or attr in self.reg.classes or attr in ('OrderedSet',):
            return ClassRef(attr)
        if base.name in ('logger', 'logging'):
            return SpecFn('builtin:log')
        if base.name == 'os' and attr == 'path':
            return ModuleRef('os.path')
        if base.name == 'collections' and attr == 'deque':
            return SpecFn('builtin:list')        # LIB: a deque built from an iterable iterates as that sequence
        if len(self.reg.by_base.get(attr, [])) > 1:
            return SpecFn('func:%s.%s' % (base.name, attr))
        return SpecFn('func:' + attr)

    def ev_Subscript(self, node, st):
        base = self.ev(node.value, st)
        if isinstance(node.slice, ast.Slice):
            return self.slice_(base, node.slice, st)
        idx = self.ev(node.slice, st)
        return self.getitem(base, idx, st)

    def getitem(self, base, idx, st):
        if isinstance(base, PyTuple):
            if not isinstance(idx, PyVal) and idx.sort == INT:
                i = z3.simplify(idx.t)
                if z3.is_int_value(i):
                    return base.items[i.as_long()]
            raise OutsideSubset('tuple index')
        if isinstance(base, PyNav):
            if base.pending is None:
                raise OutsideSubset('navigation step without a class')
            items = idx.items if isinstance(idx, PyTuple) else [idx]
            rel = z3.simplify(items[0].t)
            phrase = z3.simplify(items[1].t) if len(items) > 1 else z3.StringVal('')
            if not (z3.is_int_value(rel) or z3.is_string_value(rel)) or not z3.is_string_value(phrase):
                raise OutsideSubset('navigation step with a computed association')
            relt = 'R%d' % rel.as_long() if z3.is_int_value(rel) else rel.as_string()
            step = '%s[%s%s]' % (base.pending.upper(), relt, (",'%s'" % phrase.as_string()) if phrase.as_string() else '')
            return PyNav(base.kind, base.handle, base.chain + ('.' if base.chain else '') + step, None)
        if isinstance(base, PyDict):
            keys = list(base.items)
            k = coerce(idx, STR).t
            ks = z3.simplify(k)
            if z3.is_string_value(ks):
                if ks.as_string() in base.items:
                    return base.items[ks.as_string()]
                raise PyRaise('KeyError', st, 'lookup in a literal table')
            # symbolic key: one path per entry of the table, plus the KeyError path
            d = self.choose_n(len(keys) + 1, 'table')
            if d == len(keys):
                st.assume(z3.And([k != z3.StringVal(x) for x in keys]))
                self.prune_if_dead(st)
                raise PyRaise('KeyError', st, 'lookup in a literal table')
            st.assume(k == z3.StringVal(keys[d]))
            self.prune_if_dead(st)
            return base.items[keys[d]]
        if isinstance(base, PyVal):
            raise OutsideSubset('subscript of %s' % type(base).__name__)
        s = base.sort
        if isinstance(s, TupT):
            i = z3.simplify(idx.t)
            if z3.is_int_value(i):
                return tup_items(base)[i.as_long()]
            raise OutsideSubset('tuple index')
        if isinstance(s, ArrT):
            return SV(s.v, z3.Select(base.t, coerce(idx, s.k).t))
        if isinstance(s, SeqT):
            i = coerce(idx, INT).t
            n = z3.Length(base.t)
            if not self.spec_mode:
                self.raise_if(st, z3.Or(i >= n, i < -n), 'IndexError', 'list index')
            isimp = z3.simplify(i)
            if self.spec_mode and not (z3.is_int_value(isimp) and isimp.as_long() < 0):
                j = i                      # specifications index sequences with non-negative positions
            else:
                j = z3.simplify(z3.If(i < 0, n + i, i))
            el = SV(s.elem, nth(base.t, j))
            self.assume_field_invariant(st, el)
            return el
        if s == STR:
            i = coerce(idx, INT).t
            n = z3.Length(base.t)
            if not self.spec_mode:
                self.raise_if(st, z3.Or(i >= n, i < -n), 'IndexError', 'string index')
            return SV(STR, z3.SubString(base.t, z3.If(i < 0, n + i, i), 1))
        if isinstance(s, MapT):
            if s.k is None:
                if self.spec_mode:
                    raise OutsideSubset('lookup in empty map literal')
                raise PyRaise('KeyError', st, 'dict lookup')
            k = coerce(idx, s.k)
            if not self.spec_mode:
                self.raise_if(st, z3.Not(z3.Select(base.c['dom'], k.t)), 'KeyError', 'dict lookup')
            v = SV(s.v, z3.Select(base.c['val'], k.t))
            self.assume_field_invariant(st, v)
            return v
        if is_ref(s) and self.reg.class_info(s.cls, 'dictfield'):
            return self.getitem(self.dict_of(st, base), idx, st)
        if is_ref(s):
            i = None if isinstance(idx, PyVal) else z3.simplify(idx.t) if idx.sort == INT else None
            if i is not None and z3.is_int_value(i):
                key = self.reg.field_key(s.cls, '[%d]' % i.as_long())
                if key is not None:
                    v = self.heap_get(st, key, base.t)
                    self.assume_field_invariant(st, v)
                    return v
            m = self.reg.method(s.cls, '__getitem__')
            if m is not None:
                return self.call_contract(m, [base, idx], {}, st)
        raise OutsideSubset('subscript of %s' % s)

    def slice_(self, base, sl, st):
        if isinstance(base, PyVal) or sl.step is not None:
            raise OutsideSubset('slice')
        if base.sort == VAL:
            self.raise_if(st, z3.Not(Val.is_VStr(base.t)), 'TypeError', 'slice of a value that is not a string')
            base = coerce(base, STR)
        lo = self.ev(sl.lower, st).t if sl.lower is not None else z3.IntVal(0)
        n = z3.Length(base.t)
        hi = self.ev(sl.upper, st).t if sl.upper is not None else n
        norm = lambda i: z3.If(i < 0, z3.If(n + i < 0, 0, n + i), z3.If(i > n, n, i))
        lo, hi = norm(lo), norm(hi)
        ln = z3.If(hi > lo, hi - lo, 0)
        if base.sort == STR:
            return SV(STR, z3.SubString(base.t, lo, ln))
        if isinstance(base.sort, SeqT):
            return SV(base.sort, z3.Extract(base.t, lo, ln))
        raise OutsideSubset('slice of %s' % base.sort)

    # ---------------------------------------------------------------- comprehensions (spec: quantifiers; code: map/filter)
    def ev_GeneratorExp(self, node, st):
        raise OutsideSubset('bare generator expression')

    def ev_ListComp(self, node, st):
        if len(node.generators) != 1 or node.generators[0].is_async:
            raise OutsideSubset('comprehension shape')
        g = node.generators[0]
        seq = self.as_seq(self.ev(g.iter, st), st)
        # result: a fresh sequence r with len(r) == len(seq) and r[i] == elt(seq[i])   (no filter), elements must be pure
        if g.ifs or not self.is_pure(node.elt):
            raise OutsideSubset('list comprehension with filter or effects')
        i = z3.Int(fresh_name('li'))
        s2 = st.fork()
        self.bind_target(g.target, SV(seq.sort.elem, nth(seq.t, i)), s2)
        saved = st.env
        st.env = s2.env
        try:
            el = self.ev(node.elt, st)
        finally:
            st.env = saved
        if isinstance(el, PyVal):
            raise OutsideSubset('comprehension element')
        r = fresh(SeqT(el.sort), 'comp')
        st.assume(z3.Length(r.t) == z3.Length(seq.t))
        st.assume(z3.ForAll([i], z3.Implies(z3.And(0 <= i, i < z3.Length(seq.t)), nth(r.t, i) == el.t)))
        return r

    def quantifier(self, node, st, universal):
        """all(P for x in S) / any(P for x in S) in spec mode"""
        if len(node.generators) != 1:
            raise OutsideSubset('quantifier with several generators')
        g = node.generators[0]
        bound, guard, env_add = self.quant_domain(g, st)
        saved = st.env
        st.env = dict(saved)
        st.env.update(env_add)
        try:
            conds = [self.ev_truth(c, st) for c in g.ifs]
            body = self.ev_truth(node.elt, st)
        finally:
            st.env = saved
        if universal:
            return mk_bool(z3.ForAll(bound, z3.Implies(z3.And([guard] + conds), body)))
        return mk_bool(z3.Exists(bound, z3.And([guard] + conds + [body])))

    def quant_domain(self, g, st):
        it = g.iter
        if isinstance(it, ast.Call) and isinstance(it.func, ast.Name) and it.func.id == 'range':
            args = [self.ev(a, st).t for a in it.args]
            lo, hi = (z3.IntVal(0), args[0]) if len(args) == 1 else (args[0], args[1])
            i = z3.Int(fresh_name('q'))
            return [i], z3.And(lo <= i, i < hi), {g.target.id: SV(INT, i)}
        if isinstance(it, ast.Call) and isinstance(it.func, ast.Name) and it.func.id in ('every', 'refs'):
            cls = it.args[0].value if it.args else None
            r = z3.Const(fresh_name('qr'), Ref)
            guard = z3.And(r != null, self.allocated(st, r))
            if cls:
                guard = z3.And(guard, self.isinstance_term(r, cls))
            return [r], guard, {g.target.id: SV(RefT(cls), r)}
        if isinstance(it, ast.Call) and isinstance(it.func, ast.Name) and it.func.id == 'anyref':
            cls = it.args[0].value if it.args else None
            r = z3.Const(fresh_name('qr'), Ref)
            return [r], z3.BoolVal(True), {g.target.id: SV(RefT(cls), r)}
        if isinstance(it, ast.Call) and isinstance(it.func, ast.Name) and it.func.id == 'ints':
            i = z3.Int(fresh_name('q'))
            return [i], z3.BoolVal(True), {g.target.id: SV(INT, i)}
        if isinstance(it, ast.Call) and isinstance(it.func, ast.Name) and it.func.id == 'strs':
            s = z3.String(fresh_name('qs'))
            return [s], z3.BoolVal(True), {g.target.id: SV(STR, s)}
        if isinstance(it, ast.Call) and isinstance(it.func, ast.Name) and it.func.id == 'vals':
            s = z3.Const(fresh_name('qv'), Val)
            return [s], z3.BoolVal(True), {g.target.id: SV(VAL, s)}
        dom = self.ev(it, st)
        if isinstance(dom, PyTuple):
            raise OutsideSubset('quantifier over python tuple')
        if isinstance(dom.sort, SeqT) or is_ref(dom.sort):
            seq = self.as_seq(dom, st)
            i = z3.Int(fresh_name('q'))
            el = SV(seq.sort.elem, nth(seq.t, i))
            s2 = st.fork()
            self.bind_target(g.target, el, s2)
            add = dict((k, v) for k, v in s2.env.items() if st.env.get(k) is not v)
            return [i], z3.And(0 <= i, i < z3.Length(seq.t)), add
        if isinstance(dom.sort, SetT):
            x = z3.Const(fresh_name('q'), zsort(dom.sort.elem))
            return [x], z3.Select(dom.t, x), {g.target.id: SV(dom.sort.elem, x)}
        if isinstance(dom.sort, MapT):
            x = z3.Const(fresh_name('q'), zsort(dom.sort.k))
            return [x], z3.Select(dom.c['dom'], x), {g.target.id: SV(dom.sort.k, x)}
        raise OutsideSubset('quantifier domain %s' % dom.sort)

    def as_seq(self, v, st):
        """the sequence a value iterates as"""
        if isinstance(v, PyTuple):
            if all(isinstance(x, SV) for x in v.items):
                t = z3.Empty(z3.SeqSort(Val))
                for x in v.items:
                    t = z3.Concat(t, z3.Unit(box(x).t))
                return SV(SeqT(VAL), t)
            raise OutsideSubset('iteration over python tuple')
        if isinstance(v, PyVal):
            raise OutsideSubset('iteration over %s' % type(v).__name__)
        s = v.sort
        if isinstance(s, SeqT):
            if s.elem is None:
                return SV(SeqT(VAL), z3.Empty(z3.SeqSort(Val)))
            return v
        if isinstance(s, SetT) and s.elem is None:
            return SV(SeqT(None), {})
        if isinstance(s, MapT):
            if s.k is None:
                return SV(SeqT(VAL), z3.Empty(z3.SeqSort(Val)))
            if not self.spec_mode:
                self.assume_map_wf(st, v)
            return SV(SeqT(s.k), v.c['keys'])
        if is_ref(s) and self.reg.class_info(s.cls, 'dictfield'):
            return self.as_seq(self.dict_of(st, v), st)
        if is_ref(s):
            text = self.reg.class_info(s.cls, 'iter')
            if text is not None:
                return self.as_seq(self.spec_eval(text, st, {'self': v}), st)
            m = self.reg.method(s.cls, '__iter__')
            if m is not None:
                return self.as_seq(self.call_contract(m, [v], {}, st), st)
        raise OutsideSubset('iteration over %s' % s)
