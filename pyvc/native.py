"""Replay of a solver counterexample on the real code, for functions whose parameters are all int / str / bool.

The model's values for the parameters are passed to the real function (imported from /repo), and the *same clause text* the
obligation was generated from is evaluated natively on arguments and result.  Quantifiers over ints() are evaluated over a finite
window around the values involved (enough for the position arithmetic they are used for); a clause that cannot be evaluated
natively yields 'not-evaluable', never a verdict."""
import importlib

from .sorts import INT, STR, BOOL


def primitive_params(ct):
    return all(len(p) >= 2 and p[1] in (INT, STR, BOOL) for p in ct.params) and not ct.qual.startswith('C')


def model_args(ct, z3model_items):
    """z3model_items: dict name -> python value extracted in the solver worker"""
    args = {}
    for p in ct.params:
        v = z3model_items.get('arg_' + p[0])
        if v is None:
            v = {INT: 0, STR: '', BOOL: False}[p[1]]
        args[p[0]] = v
    return args


def spec_env(window):
    def implies(a, b):
        return (not a) or b
    env = dict(implies=implies, upper=lambda s: s.upper(), lower=lambda s: s.lower(), ints=lambda: range(-window, window + 1),
               is_int=lambda v: isinstance(v, int) and not isinstance(v, bool), is_str=lambda v: isinstance(v, str),
               is_bool=lambda v: isinstance(v, bool), is_real=lambda v: isinstance(v, float), is_none=lambda v: v is None,
               int_str=lambda n: '%d' % n, old=lambda x: x, ite=lambda c, a, b: a if c else b)
    return env


def call_native(qual, args):
    parts = qual.split('@')[0].split('.')
    for i in range(len(parts) - 1, 0, -1):
        try:
            mod = importlib.import_module('.'.join(parts[:i]))
        except ImportError:
            continue
        obj = mod
        for p in parts[i:]:
            obj = getattr(obj, p)
        return obj(**args)
    raise ImportError(qual)


def replay(ct, kind, label, args):
    """returns dict(reproduced=bool|None, observed=..., required=clause text)"""
    text = None
    if kind == 'ensures':
        text = ct.ensures.get(label)
    window = 8 + max([abs(v) for v in args.values() if isinstance(v, int) and not isinstance(v, bool)] + [len(v) for v in args.values() if isinstance(v, str)] + [0])
    window = min(window, 400)
    out = dict(input=args, clause=label, required=text)
    try:
        result = call_native(ct.qual, args)
        out['observed'] = 'returned %r' % (result,)
    except Exception as e:
        out['observed'] = 'raised %s: %s' % (type(e).__name__, e)
        if kind in ('no-other-exception', 'raises-only-when'):
            out['reproduced'] = kind == 'no-other-exception' and type(e).__name__ == label
            return out
        out['reproduced'] = None
        return out
    if text is None:
        out['reproduced'] = None
        return out
    env = spec_env(window)
    env.update(args)
    env['result'] = result
    try:
        ok = eval(text, env)
        out['reproduced'] = not ok
    except Exception as e:
        out['reproduced'] = None
        out['observed'] += ' (clause not evaluable natively: %s)' % e
    return out
