"""Registry of contracts visible to one verification run, symbolic state, obligations."""
import ast
import collections
import importlib

import z3

from .sorts import SV, Ref, null, RefT, zsort, fresh_name
from .values import OutsideSubset


class Registry(object):
    """Union of the contract modules in scope."""
    def __init__(self, modnames, program):
        self.program = program
        self.modules = []
        seen = set()

        def add(name):
            if name in seen:
                return
            seen.add(name)
            m = importlib.import_module(name).M
            for dep in m.imports:
                add(dep)
            self.modules.append(m)
        for n in modnames:
            add(n)
        self.top = [importlib.import_module(n).M for n in modnames]
        self.fields = collections.OrderedDict()
        self.contracts = collections.OrderedDict()
        self.classes = {}
        self.specfns = {}
        self.spec_sorts = {}
        self.axioms = collections.OrderedDict()
        self.assumptions = []
        self.uninterp = {}
        for m in self.modules:
            self.fields.update(m.fields_)
            self.contracts.update(m.contracts)
            self.classes.update(m.classes)
            self.axioms.update(m.axioms)
            self.spec_sorts.update(m.spec_sorts)
            self.uninterp.update(m.uninterp)
            self.assumptions += m.assumptions
            if m.spec_text.strip():
                for n in ast.parse(m.spec_text).body:
                    if isinstance(n, ast.FunctionDef):
                        self.specfns[n.name] = n
        self.by_base = collections.defaultdict(list)
        for q, c in self.contracts.items():
            self.by_base[q.split('@')[0].split('.')[-1]].append(c)
        self.extra_bases = dict((k, v['bases']) for k, v in self.classes.items() if 'bases' in v)

    def mro(self, cls):
        return self.program.mro(cls, self.extra_bases)

    def field_key(self, cls, attr):
        for c in self.mro(cls):
            k = '%s.%s' % (c, attr)
            if k in self.fields:
                return k
        return None

    def method(self, cls, name, args=None):
        """contract of method `name` for a receiver of static class `cls`.  Variants 'qual@Tag': a class tag specialises the
        contract for receivers of that class; any other tag is a variant by argument sorts (chosen by the sorts of `args`)."""
        mro = self.mro(cls)
        known = set(self.program.classes) | set(self.classes)
        best = None
        for ct in self.by_base.get(name, []):
            q, _, tag = ct.qual.partition('@')
            parts = q.split('.')
            if len(parts) < 2 or parts[-2] not in mro:
                continue
            rank = [mro.index(parts[-2]), 1]
            if tag:
                if tag in known:
                    if tag not in mro:
                        continue
                    rank = [mro.index(tag), 0]
                elif args is not None and not self.args_fit(ct, args):
                    continue
                elif args is None:
                    continue
            if best is None or rank < best[0]:
                best = (rank, ct)
        return best[1] if best else None

    @staticmethod
    def args_fit(ct, args):
        from .sorts import SeqT, RefT, NONE, MapT, SetT, PyVal
        from .sorts import PyStarSeq
        params = [p for p in ct.params if not p[0].startswith('*')]
        has_star = any(p[0].startswith('*') and not p[0].startswith('**') for p in ct.params)
        if not has_star and (len(args) > len(params) - 1 or any(isinstance(a, PyStarSeq) for a in args)):
            return False                     # more positional values (or a starred sequence) than the variant has parameters for
        for p, a in zip(params[1:], args):
            ps, as_ = p[1], getattr(a, 'sort', None)
            if ps is None or isinstance(ps, PyVal) or as_ is None:
                continue
            for kind in (SeqT, RefT, MapT, SetT):
                if isinstance(ps, kind) != isinstance(as_, kind) and not (as_ == NONE and isinstance(ps, RefT)):
                    return False
            if (ps == NONE) != (as_ == NONE) and not isinstance(ps, RefT):
                return False
        return True

    def function(self, name, module=None):
        """module-level function contract by basename (optionally inside dotted module prefix)"""
        cands = [c for c in self.by_base.get(name, []) if c.kind != 'lemma' and '@' not in c.qual]
        known = set(self.program.classes) | set(self.classes)
        cands = [c for c in cands if not (len(c.qual.split('.')) >= 2 and c.qual.split('.')[-2] in known)] or []
        if module:
            pref = [c for c in cands if c.qual.startswith(module + '.')]
            if pref:
                cands = pref
        if len(cands) == 1:
            return cands[0]
        if len(cands) > 1:
            raise OutsideSubset('ambiguous callee %s: %s' % (name, [c.qual for c in cands]))
        return None

    def class_info(self, cls, key, default=None):
        for c in self.mro(cls):
            if c in self.classes and key in self.classes[c]:
                return self.classes[c][key]
        return default


class St(object):
    """One symbolic path state."""
    def __init__(self):
        self.env = {}
        self.pc = []
        self.heap = {}          # field key -> {suffix: z3 array Ref -> T}
        self.yielded = None
        self.old = None         # state at function entry (for old(...))
        self.label_old = {}

    def fork(self):
        s = St()
        s.env = dict(self.env)
        s.pc = list(self.pc)
        s.heap = dict((k, dict(v)) for k, v in self.heap.items())
        s.yielded = self.yielded
        s.old = self.old
        s.label_old = dict(self.label_old)
        return s

    def snapshot(self):
        s = self.fork()
        s.old = None
        return s

    def assume(self, f):
        if z3.is_true(f):
            return
        for g in self.pc[-40:]:
            if g.eq(f):
                return
        self.pc.append(f)


class Obligation(object):
    def __init__(self, name, func, kind, label, clause_text):
        self.name, self.func, self.kind, self.label, self.clause_text = name, func, kind, label, clause_text
        self.queries = []        # (hyps list, goal, where)

    def add(self, hyps, goal, where=''):
        self.queries.append((list(hyps), goal, where))


class PyRaise(Exception):
    """A Python exception raised on the current symbolic path."""
    def __init__(self, exc, st, origin='raise', clause=None):
        Exception.__init__(self, exc)
        self.exc, self.st, self.origin, self.clause = exc, st, origin, clause


class PathEnd(Exception):
    """The current path stops here (loop iteration finished, assumption false, ...)."""


EXC_BASES = {
    'Exception': ['BaseException'], 'KeyError': ['LookupError'], 'IndexError': ['LookupError'], 'LookupError': ['Exception'],
    'ValueError': ['Exception'], 'TypeError': ['Exception'], 'AttributeError': ['Exception'], 'StopIteration': ['Exception'],
    'ZeroDivisionError': ['ArithmeticError'], 'ArithmeticError': ['Exception'], 'AssertionError': ['Exception'],
    'RuntimeError': ['Exception'], 'NotImplementedError': ['RuntimeError'], 'OverflowError': ['ArithmeticError'],
}
