"""Sort descriptors and symbolic values of the pyvc symbolic executor.

Encoding decisions (DESIGN.md §2.3):
  PY-1  int = mathematical integers (z3 Int)         PY-2  static sorts come from the sidecar; values whose type the
  code inspects dynamically are the universal datatype Val          PY-3  objects are references (uninterpreted sort Ref),
  each field is a z3 array Ref -> T; list/dict *values* that are never aliased are stored by value in their field.
"""
import z3

Ref = z3.DeclareSort('Ref')
null = z3.Const('null', Ref)

Val = z3.Datatype('Val')
Val.declare('VNone')
Val.declare('VInt', ('ival', z3.IntSort()))
Val.declare('VBool', ('bval', z3.BoolSort()))
Val.declare('VStr', ('sval', z3.StringSort()))
Val.declare('VRef', ('rval', Ref))
Val.declare('VReal', ('xval', z3.RealSort()))
Val.declare('VOther', ('oval', z3.IntSort()))      # opaque immutable values (tuples, frozensets) identified by an integer code
Val = Val.create()


class Sort(object):
    name = '?'
    cls = None

    def comps(self):
        """[(suffix, z3 sort)] — a symbolic value of this sort is a dict suffix -> z3 term."""
        raise NotImplementedError

    def __eq__(self, other):
        return type(self) is type(other) and self.key() == other.key()

    def __ne__(self, other):
        return not self == other

    def __hash__(self):
        return hash((type(self).__name__, self.key()))

    def key(self):
        return ()

    def __repr__(self):
        return self.name


class _Simple(Sort):
    def __init__(self, name, z):
        self.name, self.z = name, z

    def comps(self):
        return [('', self.z)]

    def key(self):
        return self.name


INT = _Simple('Int', z3.IntSort())
BOOL = _Simple('Bool', z3.BoolSort())
STR = _Simple('Str', z3.StringSort())
REAL = _Simple('Real', z3.RealSort())
VAL = _Simple('Val', Val)


class _None(Sort):
    name = 'None'

    def comps(self):
        return []


NONE = _None()


class RefT(Sort):
    """Reference to a heap object; `cls` is the static class used to resolve fields and method contracts (None = unknown)."""
    def __init__(self, cls=None):
        self.cls = cls
        self.name = 'Ref[%s]' % cls

    def comps(self):
        return [('', Ref)]

    def key(self):
        return self.cls


class SeqT(Sort):
    def __init__(self, elem):
        self.elem = elem
        self.name = 'Seq[%s]' % elem

    def zelem(self):
        return zsort(self.elem)

    def comps(self):
        return [('', z3.SeqSort(self.zelem()))]

    def key(self):
        return self.elem


class SetT(Sort):
    def __init__(self, elem):
        self.elem = elem
        self.name = 'Set[%s]' % elem

    def comps(self):
        return [('', z3.ArraySort(zsort(self.elem), z3.BoolSort()))]

    def key(self):
        return self.elem


class MapT(Sort):
    """dict value: membership array, value array, and the insertion-ordered key sequence (PY-7)."""
    def __init__(self, k, v):
        self.k, self.v = k, v
        self.name = 'Map[%s,%s]' % (k, v)

    def comps(self):
        zk, zv = zsort(self.k), zsort(self.v)
        return [('dom', z3.ArraySort(zk, z3.BoolSort())), ('val', z3.ArraySort(zk, zv)), ('keys', z3.SeqSort(zk))]

    def key(self):
        return (self.k, self.v)


class ArrT(Sort):
    """total function K -> V (ghost state only, e.g. the position of a key in an ordered set)"""
    def __init__(self, k, v):
        self.k, self.v = k, v
        self.name = 'Arr[%s,%s]' % (k, v)

    def comps(self):
        return [('', z3.ArraySort(zsort(self.k), zsort(self.v)))]

    def key(self):
        return (self.k, self.v)


_tuple_sorts = {}


class TupT(Sort):
    """Tuple with statically known arity; as an element of a Seq/Map it is a z3 datatype."""
    def __init__(self, *elems):
        self.elems = tuple(elems)
        self.name = 'Tup[%s]' % ','.join(map(repr, elems))

    def z(self):
        k = self.elems
        if k not in _tuple_sorts:
            dt = z3.Datatype('Tup_' + '_'.join(e.name.replace('[', '').replace(']', '').replace(',', '') for e in k))
            dt.declare('mk', *[('e%d' % i, zsort(e)) for i, e in enumerate(k)])
            _tuple_sorts[k] = dt.create()
        return _tuple_sorts[k]

    def comps(self):
        return [('', self.z())]

    def key(self):
        return self.elems


def zsort(s):
    c = s.comps()
    if len(c) != 1:
        raise TypeError('sort %s has no single z3 sort' % s)
    return c[0][1]


class SV(object):
    """Symbolic value: a sort and one z3 term per component."""
    __slots__ = ('sort', 'c')

    def __init__(self, sort, c=None):
        self.sort = sort
        if c is None:
            c = {}
        elif not isinstance(c, dict):
            c = {'': c}
        self.c = c

    @property
    def t(self):
        return self.c['']

    def __repr__(self):
        return 'SV(%s, %s)' % (self.sort, self.c if len(self.c) != 1 else self.c.get('', self.c))


class PyVal(object):
    """Values that exist only at verification time (closures, bound methods, modules, classes, python tuples)."""
    sort = None


class PyTuple(PyVal):
    def __init__(self, items):
        self.items = list(items)

    @property
    def sort(self):
        return TupT(*[i.sort for i in self.items])


class Closure(PyVal):
    def __init__(self, node, env, qual):
        self.node, self.env, self.qual = node, env, qual


class BoundMethod(PyVal):
    def __init__(self, recv, name):
        self.recv, self.name = recv, name


class ModuleRef(PyVal):
    def __init__(self, name):
        self.name = name


class ClassRef(PyVal):
    def __init__(self, name):
        self.name = name


class PyDict(PyVal):
    """dict literal with constant string keys (operator tables of the interpreter)"""
    def __init__(self, items):
        self.items = dict(items)


class PyProperty(PyVal):
    """property(fget[, fset]) object built in the code under verification"""
    def __init__(self, fget, fset=None):
        self.fget, self.fset = fget, fset


class PyNav(PyVal):
    """navigation expression under construction: one(x).KL[rel, 'phrase']...  (the DSL of xtuml.meta.NavChain)"""
    def __init__(self, kind, handle, chain='', pending=None):
        self.kind, self.handle, self.chain, self.pending = kind, handle, chain, pending


class PyStarSeq(PyVal):
    """*seq at a call site, where seq is a symbolic sequence"""
    def __init__(self, seq):
        self.seq = seq


class PyTypeOf(PyVal):
    """type(x) of a model instance: only its __name__ is meaningful (the key letters of the metaclass)"""
    def __init__(self, obj):
        self.obj = obj


class SpecFn(PyVal):
    def __init__(self, name):
        self.name = name


_counter = [0]


def fresh_name(base):
    _counter[0] += 1
    return '%s!%d' % (base, _counter[0])


def fresh(sort, base='v'):
    n = fresh_name(base)
    return SV(sort, dict((suf, z3.Const(n + ('.' + suf if suf else ''), zs)) for suf, zs in sort.comps()))


def const(sort, name):
    return SV(sort, dict((suf, z3.Const(name + ('.' + suf if suf else ''), zs)) for suf, zs in sort.comps()))


def mk_int(i):
    return SV(INT, z3.IntVal(i))


def mk_bool(b):
    return SV(BOOL, z3.BoolVal(b) if isinstance(b, bool) else b)


def mk_str(s):
    return SV(STR, z3.StringVal(s))


NONE_V = SV(NONE, {})
