"""Sidecar contract language of pyvc.

A contracts module builds one `Module` object:

    M = Module('contracts.c19', prop='C19')
    M.fields({'IdGenerator._current': VAL, ...})            # heap fields (declaring class . attribute) and their sorts
    M.spec('''def lo(link): return 0 if link.conditional else 1''')      # spec functions: plain Python text, inlined symbolically,
                                                                        # executed natively when a clause is evaluated on real objects
    M.contract('xtuml.tools.IdGenerator.peek',
               params=[('self', RefT('IdGenerator'))], returns=VAL,
               requires={...label: 'python expression'...}, ensures={...}, raises=[Raises('KeyError', when='...', post={...})],
               modifies=['self._current'], loops={0: Loop(inv={...}, decreases='...')})

Clause texts are Python expressions over the parameters, `result`, `old(e)`, heap fields written as attribute access, spec
functions, `all(... for x in S)`, `any(...)`, `implies(a, b)`.  The same text is (i) turned into z3 terms by the executor,
(ii) evaluated on real objects when a counterexample is replayed or a run-time contract is attached.
"""
import ast
import collections

from .sorts import Sort


class Raises(object):
    def __init__(self, exc, when, post=None):
        self.exc, self.when, self.post = exc, when, post or {'unchanged': 'unchanged()'}


class Loop(object):
    def __init__(self, inv=None, decreases=None, modifies=None, note='', unreachable=False):
        self.unreachable = unreachable  # the body cannot run under this contract's precondition (no reachability cover is demanded)
        self.inv = inv or {}
        self.decreases = decreases
        self.modifies = modifies        # extra heap fields (beyond the function's modifies) the loop may change; None = function's
        self.note = note


class Contract(object):
    def __init__(self, qual, params, returns=None, requires=None, ensures=None, raises=None, modifies=None, loops=None,
                 locals=None, kind='function', trusted=False, reason='', source=None, yields=None, rely=None, reify=None,
                 no_other_exception=True, ghost=None, statics=None, native=None, runtime=True, lets=None,
                 tiers=('quick', 'thorough')):
        self.qual = qual
        self.params = list(params)          # [(name, Sort)] or (name, Sort, default_text)
        self.returns = returns
        self.requires = requires or {}
        self.ensures = ensures or {}
        self.raises = raises or []
        self.modifies = modifies or []
        self.loops = loops or {}
        self.locals = locals or {}
        self.kind = kind                    # function | generator | property | lemma
        self.trusted = trusted              # contract assumed, body not verified (listed as assumption with `reason`)
        self.reason = reason
        self.source = source                # for lemmas: the client program text
        self.yields = yields                # element sort of a generator
        self.rely = rely
        self.reify = reify                  # model -> native replay (callable), optional
        self.no_other_exception = no_other_exception
        self.ghost = ghost or {}
        self.statics = statics or {}        # names bound to python-side constants during verification (e.g. module globals)
        self.native = native                # how to call the real function when replaying: dotted path (default: qual)
        self.runtime = runtime              # clauses evaluable natively (no ghost state)
        self.tiers = tiers
        self.lets = lets or {}              # name -> spec expression evaluated once in the pre-state, visible in every clause
        self.module = None

    def param_names(self):
        return [p[0] for p in self.params]


class Module(object):
    def __init__(self, name, prop):
        self.name, self.prop = name, prop
        self.fields_ = collections.OrderedDict()
        self.spec_text = ''
        self.contracts = collections.OrderedDict()
        self.axioms = collections.OrderedDict()
        self.classes = {}                   # class name -> dict(bases=[...], truthy='len'|'always', len='expr text', iter='expr text')
        self.assumptions = []
        self.imports = []                   # other contract modules whose contracts/fields/spec are visible (callee contracts)
        self.uninterp = {}
        self.spec_sorts = {}                # spec function name -> (param sorts, result sort) for recursive spec functions

    def fields(self, d):
        self.fields_.update(d)

    def spec(self, text, sorts=None):
        self.spec_text += '\n' + text
        if sorts:
            self.spec_sorts.update(sorts)

    def uninterpreted(self, name, params, result):
        """spec function without definition (an abstract value the contract is parametric in)"""
        self.uninterp[name] = (list(params), result)

    def axiom(self, label, text, vars=None):
        self.axioms[label] = (text, vars or [])

    def klass(self, name, **kw):
        self.classes[name] = kw

    def assume(self, text):
        self.assumptions.append(text)

    def use(self, *mods):
        self.imports.extend(mods)

    def contract(self, qual, params, **kw):
        c = Contract(qual, params, **kw)
        c.module = self
        if any('fresh(' in t for t in c.ensures.values()) or any(m.startswith('fresh:') for m in c.modifies):
            c.ghost.setdefault('allocates', True)       # a contract that speaks of fresh objects allocates
        self.contracts[qual] = c
        return c

    def lemma(self, name, params, source, **kw):
        c = Contract(name, params, kind='lemma', source=source, **kw)
        c.module = self
        self.contracts[name] = c
        return c


def parse_expr(text):
    return ast.parse(text.strip(), mode='eval').body
