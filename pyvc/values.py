"""Value-level semantics: coercions between sorts, Python equality, truthiness, string/int conversions."""
import z3

from .sorts import (SV, PyTuple, PyVal, ModuleRef, Sort, INT, BOOL, STR, REAL, VAL, NONE, NONE_V, RefT, SeqT, SetT, MapT, TupT, Val, Ref, null,
                    zsort, fresh, mk_bool, mk_int, mk_str)


class OutsideSubset(Exception):
    """The code (or a contract) uses something the executor does not model: the function is undecided, never proved."""


def is_ref(s):
    return isinstance(s, RefT)


def int_to_str(n):
    return z3.If(n >= 0, z3.IntToStr(n), z3.Concat(z3.StringVal('-'), z3.IntToStr(-n)))


def is_int_literal(s):
    """the strings int() accepts in the shapes the repo produces: optional sign followed by one or more ASCII digits
    (str.to_int is -1 exactly on strings that are not such digit strings).  A: whitespace / underscore forms are not produced."""
    rest = z3.SubString(s, 1, z3.Length(s) - 1)
    signed = z3.Or(z3.PrefixOf(z3.StringVal('-'), s), z3.PrefixOf(z3.StringVal('+'), s))
    return z3.Or(z3.StrToInt(s) >= 0, z3.And(signed, z3.StrToInt(rest) >= 0))


def str_to_int(s):
    rest = z3.SubString(s, 1, z3.Length(s) - 1)
    return z3.If(z3.StrToInt(s) >= 0, z3.StrToInt(s),
                 z3.If(z3.PrefixOf(z3.StringVal('-'), s), -z3.StrToInt(rest), z3.StrToInt(rest)))


_AT = {}
AT_AXIOMS = []
AT_AXIOM_NAMES = []      # per axiom: the function whose occurrence makes it relevant


def nth(seq_term, i):
    """element access through an uninterpreted function linked to the sequence theory by one axiom per sequence sort:
    quantified invariants trigger reliably on at(s, i), which the sequence solver's own seq.nth (rewritten internally) does not"""
    so = seq_term.sort()
    key = so.sexpr()
    if key not in _AT:
        f = z3.Function('at_%d' % len(_AT), so, z3.IntSort(), so.basis())
        s, j = z3.Const('ats_%d' % len(_AT), so), z3.Int('atj_%d' % len(_AT))
        _AT[key] = f
        AT_AXIOMS.append(z3.ForAll([s, j], f(s, j) == s[j], patterns=[f(s, j)]))
        AT_AXIOM_NAMES.append(f.name())
    if not z3.is_expr(i):
        i = z3.IntVal(i)
    return _AT[key](seq_term, i)


_MEM = {}


def mem(seq_term, x):
    """x in seq as a named predicate, defined by one axiom per sequence sort: mem(s, v) <=> exists i. 0 <= i < len(s) and at(s, i) == v.
    Membership-level reasoning (symmetry of links, set algebra) then needs no positions at all."""
    so = seq_term.sort()
    key = so.sexpr()
    if key not in _MEM:
        f = z3.Function('mem_%d' % len(_MEM), so, so.basis(), z3.BoolSort())
        s, v, i = z3.Const('mems_%d' % len(_MEM), so), z3.Const('memv_%d' % len(_MEM), so.basis()), z3.Int('memi_%d' % len(_MEM))
        _MEM[key] = f
        nth(s, i)
        AT_AXIOMS.append(z3.ForAll([s, v], f(s, v) == z3.Exists([i], z3.And(0 <= i, i < z3.Length(s), nth(s, i) == v)), patterns=[f(s, v)]))
        AT_AXIOM_NAMES.append(f.name())
        # a position is a witness of membership
        AT_AXIOMS.append(z3.ForAll([s, i], z3.Implies(z3.And(0 <= i, i < z3.Length(s)), f(s, nth(s, i))), patterns=[nth(s, i)]))
        AT_AXIOM_NAMES.append(f.name())
    return _MEM[key](seq_term, x)


def box(v):
    """typed value -> Val"""
    s = v.sort
    if s == VAL:
        return v
    if s == NONE:
        return SV(VAL, Val.VNone)
    if s == INT:
        return SV(VAL, Val.VInt(v.t))
    if s == BOOL:
        return SV(VAL, Val.VBool(v.t))
    if s == STR:
        return SV(VAL, Val.VStr(v.t))
    if s == REAL:
        return SV(VAL, Val.VReal(v.t))
    if is_ref(s):
        return SV(VAL, z3.If(v.t == null, Val.VNone, Val.VRef(v.t)))
    raise OutsideSubset('cannot box a value of sort %s' % s)


def unbox(v, s):
    if s == INT:
        return SV(INT, z3.If(Val.is_VBool(v.t), z3.If(Val.bval(v.t), 1, 0), Val.ival(v.t)))
    if s == BOOL:
        return SV(BOOL, Val.bval(v.t))
    if s == STR:
        return SV(STR, Val.sval(v.t))
    if s == REAL:
        return SV(REAL, z3.If(Val.is_VInt(v.t), z3.ToReal(Val.ival(v.t)), Val.xval(v.t)))
    if is_ref(s):
        return SV(s, z3.If(Val.is_VRef(v.t), Val.rval(v.t), null))
    if s == NONE:
        return NONE_V
    raise OutsideSubset('cannot unbox Val to %s' % s)


def coerce(v, s):
    if isinstance(v, PyTuple):
        if isinstance(s, TupT):
            if len(s.elems) != len(v.items):
                raise OutsideSubset('tuple arity mismatch')
            return SV(s, s.z().mk(*[coerce(i, e).t for i, e in zip(v.items, s.elems)]))
        raise OutsideSubset('cannot coerce a tuple to %s' % s)
    if isinstance(v, ModuleRef) and s == VAL:
        return SV(VAL, z3.Const('module_object_%s' % v.name.replace('.', '_'), Val))   # a module / logger object passed along: opaque
    if isinstance(v, PyVal):
        raise OutsideSubset('cannot store %s as %s' % (type(v).__name__, s))
    if v.sort == s:
        return v
    if s == VAL:
        return box(v)
    if v.sort == VAL:
        return unbox(v, s)
    if v.sort == NONE and is_ref(s):
        return SV(s, null)
    if is_ref(v.sort) and is_ref(s):
        return SV(s, v.t)
    if v.sort == BOOL and s == INT:
        return SV(INT, z3.If(v.t, 1, 0))
    if v.sort == INT and s == REAL:
        return SV(REAL, z3.ToReal(v.t))
    if v.sort == INT and s == BOOL:
        raise OutsideSubset('int used as bool storage')
    if isinstance(v.sort, SeqT) and isinstance(s, SeqT) and v.sort.elem is None:
        return SV(s, z3.Empty(zsort(s)))
    if isinstance(v.sort, SeqT) and isinstance(s, SeqT) and is_ref(v.sort.elem) and is_ref(s.elem):
        return SV(s, v.t)
    if isinstance(v.sort, MapT) and isinstance(s, MapT) and v.sort.k is None:
        return empty_map(s)
    if isinstance(v.sort, SetT) and isinstance(s, SetT) and (v.sort.elem is None or (is_ref(v.sort.elem) and is_ref(s.elem))):
        if v.sort.elem is None:
            return SV(s, z3.K(zsort(s.elem), z3.BoolVal(False)))
        return SV(s, v.t)
    raise OutsideSubset('cannot coerce %s to %s' % (v.sort, s))


def tup_items(v):
    if isinstance(v, PyTuple):
        return v.items
    if isinstance(v.sort, TupT):
        z = v.sort.z()
        return [SV(e, z.accessor(0, i)(v.t)) for i, e in enumerate(v.sort.elems)]
    raise OutsideSubset('not a tuple: %s' % (v.sort,))


def empty_map(s):
    zk, zv = zsort(s.k), zsort(s.v)
    return SV(s, {'dom': z3.K(zk, z3.BoolVal(False)), 'val': z3.K(zk, default_term(s.v)), 'keys': z3.Empty(z3.SeqSort(zk))})


def default_term(s):
    if s == INT:
        return z3.IntVal(0)
    if s == BOOL:
        return z3.BoolVal(False)
    if s == STR:
        return z3.StringVal('')
    if s == REAL:
        return z3.RealVal(0)
    if s == VAL:
        return Val.VNone
    if is_ref(s):
        return null
    return z3.Const('default_%s' % s.name, zsort(s))


def join_sort(a, b):
    """sort able to hold both"""
    if a == b:
        return a
    if a == NONE and is_ref(b):
        return b
    if b == NONE and is_ref(a):
        return a
    if is_ref(a) and is_ref(b):
        return RefT(a.cls if a.cls == b.cls else None)
    if isinstance(a, SeqT) and a.elem is None and isinstance(b, SeqT):
        return b
    if isinstance(b, SeqT) and b.elem is None and isinstance(a, SeqT):
        return a
    return VAL


def py_eq(a, b):
    """Python == as a z3 Bool"""
    if isinstance(a, PyTuple) or isinstance(b, PyTuple) or isinstance(getattr(a, 'sort', None), TupT) or isinstance(getattr(b, 'sort', None), TupT):
        try:
            ia, ib = tup_items(a), tup_items(b)
        except OutsideSubset:
            return z3.BoolVal(False)
        if len(ia) != len(ib):
            return z3.BoolVal(False)
        return z3.And([py_eq(x, y) for x, y in zip(ia, ib)]) if ia else z3.BoolVal(True)
    if isinstance(a, PyVal) or isinstance(b, PyVal):
        raise OutsideSubset('comparison of %s' % type(a).__name__)
    sa, sb = a.sort, b.sort
    if sa == NONE and sb == NONE:
        return z3.BoolVal(True)
    if sa == VAL or sb == VAL:
        x, y = box(a).t, box(b).t
        num = lambda t: z3.If(Val.is_VBool(t), z3.If(Val.bval(t), 1, 0), Val.ival(t))
        isn = lambda t: z3.Or(Val.is_VInt(t), Val.is_VBool(t))
        return z3.Or(x == y, z3.And(isn(x), isn(y), num(x) == num(y)))
    if sa == NONE or sb == NONE:
        o = b if sa == NONE else a
        if is_ref(o.sort):
            return o.t == null
        return z3.BoolVal(False)
    if is_ref(sa) and is_ref(sb):
        return a.t == b.t
    if isinstance(sa, SeqT) and isinstance(sb, SeqT) and (sa.elem is None or sb.elem is None):
        if sa.elem is None and sb.elem is None:
            return z3.BoolVal(True)
        o = b if sa.elem is None else a
        return z3.Length(o.t) == 0
    if sa == sb:
        if isinstance(sa, MapT):
            return z3.And(a.c['dom'] == b.c['dom'], a.c['val'] == b.c['val'])
        return a.t == b.t
    nums = (INT, BOOL, REAL)
    if sa in nums and sb in nums:
        if REAL in (sa, sb):
            return coerce(a, REAL).t == coerce(b, REAL).t if BOOL not in (sa, sb) else z3.BoolVal(False)
        return coerce(a, INT).t == coerce(b, INT).t
    if isinstance(sa, SeqT) and isinstance(sb, SeqT) and (sa.elem is None or sb.elem is None):
        o = b if sa.elem is None else a
        return z3.Length(o.t) == 0 if o.sort.elem is not None else z3.BoolVal(True)
    return z3.BoolVal(False)


def truthy(v, len_of_ref=None):
    """Python truthiness (PY-4). len_of_ref(v) gives the length term for references to sized containers (or None)."""
    if isinstance(v, PyTuple):
        return z3.BoolVal(len(v.items) > 0)
    if isinstance(v, PyVal):
        return z3.BoolVal(True)
    s = v.sort
    if s == BOOL:
        return v.t
    if s == INT:
        return v.t != 0
    if s == REAL:
        return v.t != 0
    if s == STR:
        return z3.Length(v.t) > 0
    if s == NONE:
        return z3.BoolVal(False)
    if is_ref(s):
        n = len_of_ref(v) if len_of_ref else None
        if n is None:
            return v.t != null
        return z3.And(v.t != null, n > 0)
    if isinstance(s, SeqT):
        if s.elem is None:
            return z3.BoolVal(False)
        return z3.Length(v.t) > 0
    if isinstance(s, MapT):
        if s.k is None:
            return z3.BoolVal(False)          # the untyped empty dict literal
        return z3.Length(v.c['keys']) > 0
    if isinstance(s, TupT):
        return z3.BoolVal(len(s.elems) > 0)
    if s == VAL:
        t = v.t
        refpart = z3.BoolVal(True)
        if len_of_ref:
            n = len_of_ref(SV(RefT(None), Val.rval(t)))
            if n is not None:
                refpart = n > 0
        return z3.If(Val.is_VNone(t), False,
               z3.If(Val.is_VInt(t), Val.ival(t) != 0,
               z3.If(Val.is_VBool(t), Val.bval(t),
               z3.If(Val.is_VStr(t), z3.Length(Val.sval(t)) > 0,
               z3.If(Val.is_VReal(t), Val.xval(t) != 0,
               z3.If(Val.is_VRef(t), refpart, True))))))
    raise OutsideSubset('truthiness of %s' % s)


def ite(c, a, b):
    """conditional value"""
    if z3.is_true(c):
        return a
    if z3.is_false(c):
        return b
    if isinstance(a, PyVal) or isinstance(b, PyVal):
        if isinstance(a, PyTuple) and isinstance(b, PyTuple) and len(a.items) == len(b.items):
            return PyTuple([ite(c, x, y) for x, y in zip(a.items, b.items)])
        raise OutsideSubset('conditional over verification-time values')
    s = join_sort(a.sort, b.sort)
    a, b = coerce(a, s), coerce(b, s)
    return SV(s, dict((k, z3.If(c, a.c[k], b.c[k])) for k in a.c))
