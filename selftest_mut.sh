#!/bin/bash
# usage: selftest_mut.sh <contracts module> <file relative to repo> <python-regex-old> <new>   -> runs pyvc.debug on a scratch copy
set -e
D=$(mktemp -d /tmp/mutXXXX); cp -r ${SRC:-/repo}/xtuml ${SRC:-/repo}/bridgepoint $D/
python3 - "$D/$2" "$3" "$4" <<'PY'
import sys,re
p,old,new=sys.argv[1:4]; s=open(p).read(); s2=s.replace(old,new,1)
assert s!=s2, 'pattern not found'; open(p,'w').write(s2)
PY
cd /verif; VERIF_REPO=$D PYTHONPATH=/verif:/repo .venv/bin/python -m pyvc.debug $1 2>&1 | grep -v "^dischar\|^FUNC" | head -${5:-30}; rm -rf $D
