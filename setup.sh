#!/bin/bash
# Build the overlay interpreter: python 3.12 venv with z3-solver/cvc5/jsonschema from the offline
# wheelhouse, plus a .pth that exposes /venv's site-packages (ply, and the repo itself via its dev install).
set -e
cd "$(dirname "$0")"
if [ -x .venv/bin/python ] && .venv/bin/python -c "import z3, ply, xtuml, jsonschema" 2>/dev/null; then exit 0; fi
rm -rf .venv
/venv/bin/python -m venv .venv
PIP_NO_INDEX=1 .venv/bin/pip install -q --no-index --find-links /opt/veriftools/wheels z3-solver cvc5 jsonschema
SP=$(.venv/bin/python -c "import sysconfig; print(sysconfig.get_paths()['purelib'])")
echo "import site; site.addsitedir('/venv/lib/python3.12/site-packages')" > "$SP/_repo_overlay.pth"
.venv/bin/python -c "import z3, ply, xtuml, jsonschema; assert xtuml.__file__.startswith('/repo/'), xtuml.__file__"
